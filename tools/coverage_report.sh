#!/bin/bash
# usage: tools/coverage_report.sh [tier] [scale]   line/branch coverage of /repo/src/stereomolgraph under the union of all
# checks' workloads (blind-spot finder for the monitors; not a registered check). Output: tools/coverage_last.txt
cd "$(dirname "$0")/.." || exit 2
tier=${1:-quick}; scale=${2:-0.3}
d=$(mktemp -d /tmp/smg-cov-XXXX)
for p in $(python3 -c "import json;print(' '.join(c['property_id'] for c in json.load(open('MANIFEST.json'))['checks']))"); do
  SMG_COVERAGE=$d/cov SMG_SCALE=$scale ./check $p $tier 2>&1 | grep -E "^(HELD|VIOLATION|INCONCLUSIVE)" | cut -c1-120
done
cd $d && /venv/bin/python -m coverage combine --data-file=$d/cov $d/cov.* >/dev/null 2>&1
/venv/bin/python -m coverage report --data-file=$d/cov --show-missing --skip-empty > /verif/tools/coverage_last.txt 2>&1
tail -25 /verif/tools/coverage_last.txt
rm -rf $d
