#!/bin/bash
# usage: tools/keep_mutant.sh <property id> <worktree> <name>   stores patch + demo under /verif/seeded/<id>-<name>/
cd "$(dirname "$0")/.." || exit 2
id=$1; wt=$2; name=$3
d=seeded/$id-$name; mkdir -p $d
git -C $wt diff > $d/patch.diff
cp $wt/demo*.py $d/ 2>/dev/null
echo "stored $d ($(wc -l < $d/patch.diff) diff lines)"
