NOTES = "See DESIGN.md. Exit codes: 0 held (KNOWN-FINDING lines possible), 1 violation, 2 inconclusive. Known findings: /verif/KNOWN_FINDINGS.txt."
NOT_CLAIMED = {}
CHECKS["C04"] = (
    "exploration",
    "runtime oracle monitor over the completely enumerated descriptor domain (real __eq__/__hash__/invert vs Kabsch-derived rotation groups)",
    "Every ordering pair x parity pair x placeholder pattern of all six classes is executed through the real __eq__ (both directions), __hash__ and invert and compared with an independent geometric oracle; thorough enumerates the finite domain completely (exhaustive: true), quick a seeded 41/720 slice of first arguments against all second arguments.",
    "Trusted: idealised figures in smgmon/sem.py (from the class docstrings and xyz2graph), Kabsch tolerance; atom ids are drawn at random (ids must not matter).",
    "DESIGN.md 2/C04",
)
_EXPL = "exploration"
CHECKS["C01"] = (_EXPL, "runtime monitoring of real == on generated equal-by-construction variants (metamorphic oracle), reach counters via sys.monitoring",
    "Thousands of generated graphs of all four classes are rebuilt under random id bijections and insertion orders, relabelled (copy / in place) and have every descriptor re-expressed by a geometric symmetry; the real ==, reversed ==, is_isomorphic and reflexive == are observed and must be True (exceptions count as misses).",
    "Trusted: variant construction (cross-checked on a 5 % subsample by the independent reference enumerator); sizes <= 10 (quick) / 24 (thorough) atoms.", "DESIGN.md 2/C01")
CHECKS["C02"] = (_EXPL, "runtime monitoring of real == against an independent reference isomorphism enumerator (differential oracle)",
    "Independent pairs of small graphs, single-feature mutations of larger graphs and all 12 cross-class pairs go through the real == in both directions; truth comes from an independent backtracking search over element/bond/role/descriptor/stereo-change preserving bijections (never assumed from the mutation).",
    "Trusted: reference enumerator of smgmon/sem.py (validated against permutation brute force at every start), Kabsch-derived descriptor symmetry groups; fully specified parities only.", "DESIGN.md 2/C02")
CHECKS["C03"] = (_EXPL, "runtime monitoring of real hash() on equal-by-construction variants plus cross-process comparison under varied PYTHONHASHSEED",
    "hash(g) == hash(g') for every oracle-equal variant pair (renaming, insertion order, proper re-expression, mirrored ordering with opposite parity), set/dict membership, and a 300-graph recipe corpus rebuilt in fresh interpreters under 4 (quick) / 32 (thorough) hash seeds.",
    "Trusted: variant construction as C01; sampled hash seeds; empty graphs exempt from the process part as the statement says.", "DESIGN.md 2/C03")
CHECKS["C05"] = (_EXPL, "runtime monitoring of the real enumerator's complete output against an independent reference enumerator; diagnostic state-invariant wrappers on _update_state/_revert_state",
    "The complete list yielded by vf2pp_all_isomorphisms (full-graph mode; stereo / stereo_change on and off; default, colour-refinement and adversarial caller labels) is compared as a set and as a multiset with the independent reference enumerator on small pairs; on symmetric skeletons (|Aut| up to 31104) every mapping is validated, counted and checked for group closure; topological_symmetry_number is compared with the reference automorphism count.",
    "Trusted: reference enumerator; sizes <= 7 atoms for exact set comparison with arbitrary labels, named symmetric skeletons beyond.", "DESIGN.md 2/C05")
CHECKS["C16"] = (_EXPL, "runtime monitoring of real hash() on constructed certainly-unequal pairs (three families)",
    "Pairs that differ in the (element, neighbour elements) multiset, the two stereoisomers of a graph with one differing stereogenic unit inside random surroundings, and reaction graphs whose reactant/product/TS multisets differ (incl. reverse) must hash differently; generate_stereoisomers counts are recorded as an end-to-end diagnostic.",
    "Trusted: the constructions guarantee inequality; a 64-bit accidental collision (~5e-20 per pair) is reported as a violation as the property instructs.", "DESIGN.md 2/C16")
CHECKS["C15"] = (_EXPL, "runtime monitoring of the real serialiser/deserialiser pair with a snapshot-equality oracle (round-trip, view by view)",
    "Generated graphs of all four classes (arbitrary ids up to +-1e15, all descriptor classes and parities incl. unspecified and placeholders, all 7 change-slot subsets, formed/broken/fleeting bonds, isolated atoms, empty graph) are serialised and deserialised by the real JSONHandler; the result's public views must equal the original's (same class, atoms, elements, bonds, roles, descriptors with identical parity value, changes), then == and hash.",
    "Trusted: snapshot reader (public views only); attributes other than element / reaction role are outside the statement.", "DESIGN.md 2/C15")
CHECKS["C20"] = (_EXPL, "runtime monitoring with icontract postconditions on BondsFromDistance.array / pairwise_distances plus direct recomputation oracle and rigid-motion/permutation metamorphic relation",
    "XYZ write->read on generated geometries (1..200 atoms, all 118 elements, magnitudes 1e-12..1e6, -0.0, 8th-decimal rounding, ten comment classes) must reproduce elements and coordinates to 0.5e-8; distance connectivity is checked entry by entry against [d < 1.2(r_i+r_j)] recomputed by the harness, for symmetry/zero diagonal (icontract), and for invariance under random rigid motions and permutations.",
    "Trusted: harness distance arithmetic (math.dist); pairs within 1e-9 (1e-6 after motion) relative of the cut-off are not judged; comments are single lines.", "DESIGN.md 2/C20")
