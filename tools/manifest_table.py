NOTES = "See DESIGN.md. Exit codes: 0 held (KNOWN-FINDING lines possible), 1 violation, 2 inconclusive. Known findings: /verif/KNOWN_FINDINGS.txt."
NOT_CLAIMED = {}
CHECKS["C04"] = (
    "exploration",
    "runtime oracle monitor over the completely enumerated descriptor domain (real __eq__/__hash__/invert vs Kabsch-derived rotation groups)",
    "Every ordering pair x parity pair x placeholder pattern of all six classes is executed through the real __eq__ (both directions), __hash__ and invert and compared with an independent geometric oracle; thorough enumerates the finite domain completely (exhaustive: true), quick a seeded 41/720 slice of first arguments against all second arguments.",
    "Trusted: idealised figures in smgmon/sem.py (from the class docstrings and xyz2graph), Kabsch tolerance; atom ids are drawn at random (ids must not matter).",
    "DESIGN.md 2/C04",
)
