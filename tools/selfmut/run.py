#!/usr/bin/env python3
"""Applies each deliberate break to a scratch worktree (never /repo), runs the expected checks with SMG_REPO, reports."""
import subprocess, sys, os, json, shutil
sys.path.insert(0, os.path.dirname(__file__))
from mutations import M
WT = "/tmp/selfmut-wt"
V = os.path.abspath(os.path.join(os.path.dirname(__file__), "..", ".."))
only = sys.argv[1:] 
subprocess.run(["git", "-C", "/repo", "worktree", "remove", "--force", WT], capture_output=True)
subprocess.run(["git", "-C", "/repo", "worktree", "add", "-q", WT, "HEAD"], check=True)
res = {}
try:
    for name, f, old, new, props in M:
        if only and name not in only:
            continue
        p = f"{WT}/src/stereomolgraph/{f}"
        s = open(p).read()
        if s.count(old) != 1:
            print(f"!! {name}: pattern found {s.count(old)} times - skipped"); continue
        open(p, "w").write(s.replace(old, new))
        row = {}
        for prop in props or ["C04"]:
            r = subprocess.run(["./check", prop, "quick"], cwd=V, env=dict(os.environ, SMG_REPO=WT), capture_output=True, text=True)
            first = next((l for l in r.stdout.splitlines() if l.startswith(("VIOLATION", "INCONCLUSIVE", "HELD"))), "")
            row[prop] = (r.returncode, first[:150])
        res[name] = row
        print(name, {k: v[0] for k, v in row.items()}, flush=True)
        subprocess.run(["git", "-C", WT, "checkout", "--", "."], check=True)
finally:
    subprocess.run(["git", "-C", "/repo", "worktree", "remove", "--force", WT])
json.dump(res, open(os.path.join(os.path.dirname(__file__), "last_result.json"), "w"), indent=1)
