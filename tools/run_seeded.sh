#!/bin/bash
# Re-runs, for every seeded change, the quick check of its property against a scratch worktree with the patch applied.
# A seeded change must make its check exit 1 for every seed.  usage: [SEEDS="0 1"] [ONLY=C02c] tools/run_seeded.sh [tier]
cd "$(dirname "$0")/.." || exit 2
tier=${1:-quick}
wt=/tmp/seeded-wt
git -C /repo worktree remove --force $wt >/dev/null 2>&1
git -C /repo worktree add -q $wt HEAD || exit 2
fail=0
for d in seeded/${ONLY:-}*/; do
  id=$(basename $d | cut -c1-3)
  git -C $wt checkout -q -- . && git -C $wt checkout -q --detach $(git -C /repo rev-parse HEAD)
  if ! git -C $wt apply "$PWD/${d}patch.diff" 2>/dev/null; then
    # a later repair touched the same lines: fall back to the commit the change was written against (meta.json: base_commit)
    base=$(python3 -c "import json;print(json.load(open('${d}meta.json')).get('base_commit',''))")
    { [ -n "$base" ] && git -C $wt checkout -q --detach $base && git -C $wt apply "$PWD/${d}patch.diff"; } || { echo "$d: patch does not apply"; fail=1; continue; }
    echo "$(basename $d): applied to its base commit $base (does not apply to HEAD)"
  fi
  # which checks have to fire: meta.json caught_by (first word of each entry); empty = deliberately not claimed (must stay silent)
  want=$(python3 -c "import json;m=json.load(open('${d}meta.json'));print(' '.join(sorted({c.split()[0] for c in m.get('caught_by',[])})))")
  if [ -z "$want" ]; then
    out=$(SMG_REPO=$wt ./check $id $tier 2>&1); rc=$?
    echo "$(basename $d): $id $tier rc=$rc (deliberately not claimed, see meta.json) $(echo "$out" | grep -E '^(VIOLATION|INCONCLUSIVE|HELD)' | head -1 | cut -c1-120)"
    continue
  fi
  mtier=$(python3 -c "import json;print(json.load(open('${d}meta.json')).get('tier',''))")
  [ -n "$mtier" ] && [ "$mtier" != "$tier" ] && { echo "$(basename $d): caught in the $mtier tier only (meta.json) - skipped in this $tier replay"; continue; }
  for s in ${SEEDS:-0}; do
    hit=0
    for c in $want; do
      out=$(SMG_REPO=$wt VERIF_SEED=$s ./check $c $tier 2>&1); rc=$?
      echo "$(basename $d): $c $tier seed=$s rc=$rc $(echo "$out" | grep -E '^(VIOLATION|INCONCLUSIVE|HELD)' | head -1 | cut -c1-160)"
      [ $rc -eq 1 ] && hit=1
    done
    # for every seed at least one of the checks listed in meta.json caught_by has to fire
    [ $hit -eq 1 ] || { fail=1; echo "  ^^^ MISSED for seed $s"; }
  done
done
git -C /repo worktree remove --force $wt
exit $fail
