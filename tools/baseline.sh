#!/bin/bash
# runs the repository's pinned test-suite (guard off) and compares with /root/.vp/BASELINE.json
out=$(mktemp /tmp/smg-junit-XXXX.xml)
cd /repo && env -u SMG_VERIF /venv/bin/python -m pytest -ra -q -p no:cacheprovider --timeout=900 --continue-on-collection-errors --junitxml=$out > $out.log 2>&1
/venv/bin/python - "$out" <<'PY'
import json,sys,xml.etree.ElementTree as ET
base=set(json.load(open('/root/.vp/BASELINE.json'))['stable_pass'])
t=ET.parse(sys.argv[1]).getroot()
ok=set()
for tc in t.iter('testcase'):
    name=f"{tc.get('classname')}::{tc.get('name')}"
    if not any(ch.tag in('failure','error','skipped') for ch in tc): ok.add(name)
miss=sorted(base-ok)
print(f"baseline: {len(base&ok)}/{len(base)} stable tests pass; missing={miss[:10]}")
sys.exit(1 if miss else 0)
PY
rc=$?
tail -3 $out.log
rm -f $out $out.log
exit $rc
