#!/usr/bin/env python3
"""Regenerates /verif/MANIFEST.json from the table below and validates it."""
import json, sys
from pathlib import Path

V = Path(__file__).resolve().parent.parent
BASE = "cd /repo && /venv/bin/python -m pytest -ra -q -p no:cacheprovider --timeout=900 --continue-on-collection-errors"

CHECKS = {
    # id: (level, technique, level text, level note, design_ref)
}
exec((V / "tools" / "manifest_table.py").read_text())

props = [json.loads(l) for l in (V / "properties.jsonl").read_text().splitlines() if l.strip()]
checks, na = [], []
for p in props:
    pid = p["id"]
    if pid in CHECKS:
        level, tech, text, note, ref = CHECKS[pid]
        if pid in EXTRA:
            text = text + " " + EXTRA[pid]
        checks.append({
            "property_id": pid,
            "quick_cmd": f"./check {pid} quick",
            "thorough_cmd": f"./check {pid} thorough",
            "evidence_file": f"/verif/evidence/{pid}.json",
            "replay_cmd_template": f"./check {pid} --replay {{path}}",
            "engine": "smgmon",
            "level_claimed": {"category": level, "text": text, "design_ref": ref},
            "level_note": note,
            "technique": tech,
        })
    else:
        na.append({"property_id": pid, "reason": NOT_CLAIMED.get(pid, "monitor not built yet in this session; not claimed until it is silent on the unchanged tree and fires on seeded breaks")})
m = {
    "version": 1,
    "setup_cmd": "/venv/bin/pip install -q --no-index --find-links /opt/veriftools/wheels --target /verif/.deps icontract deal && ./check --selftest",
    "hooks": {
        "guard": "SMG_VERIF",
        "enable": "no source hooks: the harness installs wrappers on the real classes/functions and sys.monitoring reach counters at run time (SMG_VERIF=1 is set by ./check and read only by the harness)",
        "baseline_off_cmd": BASE,
        "source_commits": [],
        "add_only": True,
    },
    "engines": [{"name": "smgmon", "path": "/verif/smgmon", "serves_properties": sorted(CHECKS), "kind_free_text": "runtime monitoring: real code under generated workloads, observed by reference-model / invariant / boundary-oracle monitors; sharded over 16 processes"}],
    "checks": checks,
    "not_applicable": na,
    "notes": NOTES,
}
(V / "MANIFEST.json").write_text(json.dumps(m, indent=1))
try:
    import jsonschema
    jsonschema.validate(m, json.load(open("/root/.vp/MANIFEST.schema.json")))
    print("MANIFEST valid:", len(checks), "checks,", len(na), "not claimed")
except ImportError:
    print("written (jsonschema not available for validation)")
