#!/bin/bash
# usage: tools/sweep.sh <tier> <seed-list> [ids...]   prints every non-HELD result
cd "$(dirname "$0")/.." || exit 2
tier=$1; seeds=$2; shift 2
ids="$@"
[ -z "$ids" ] && ids=$(python3 -c "import json;print(' '.join(c['property_id'] for c in json.load(open('MANIFEST.json'))['checks']))")
for s in $seeds; do
  for p in $ids; do
    out=$(VERIF_SEED=$s ./check $p $tier 2>&1)
    rc=$?
    echo "$out" | grep -E "^(HELD|INCONCLUSIVE|VIOLATION|KNOWN-FINDING)" | cut -c1-260 | sed "s/^/[seed=$s rc=$rc] /" | grep -v "HELD" 
    echo "[seed=$s] $p $tier rc=$rc $(echo "$out" | grep -E '^HELD' | sed 's/.*evaluations/evaluations/')"
  done
done
