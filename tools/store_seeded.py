#!/usr/bin/env python3
"""usage: store_seeded.py <key in seeded_table> <worktree> <check ids...>
Stores patch.diff + demo + meta.json under /verif/seeded/<key>-<name>/ after re-running the given quick checks
against the worktree (SMG_REPO) and recording their verdicts."""
import json, os, subprocess, sys, shutil, glob
sys.path.insert(0, os.path.dirname(__file__))
from seeded_table import SEEDED
V = os.path.abspath(os.path.join(os.path.dirname(__file__), ".."))
key, wt, checks = sys.argv[1], sys.argv[2], sys.argv[3:]
e = SEEDED[key]
prop = key[:3]
d = f"{V}/seeded/{key}-{e['name']}"
os.makedirs(d, exist_ok=True)
open(f"{d}/patch.diff", "w").write(subprocess.run(["git", "-C", wt, "diff"], capture_output=True, text=True).stdout)
for f in glob.glob(f"{wt}/demo*.py"):
    shutil.copy(f, d)
confirm = {}
for line in open("/tmp/confirm-all.log"):
    if line.startswith(wt + " "):
        confirm = line.strip()
runs = {}
for c in checks:
    r = subprocess.run(["./check", c, e.get("tier", "quick")], cwd=V, env=dict(os.environ, SMG_REPO=wt), capture_output=True, text=True)
    first = next((l for l in r.stdout.splitlines() if l.startswith(("VIOLATION", "INCONCLUSIVE", "HELD"))), "")
    runs[c] = {"exit": r.returncode, "first_line": first[:400]}
base = subprocess.run(["git", "-C", wt, "rev-parse", "--short", "HEAD"], capture_output=True, text=True).stdout.strip()
meta = {
    "property": prop,
    "base_commit": base,
    "origin": "written by an independent sub-agent that was given only the property text and its own scratch git worktree of /repo (nothing from /verif)",
    "change": e["change"],
    "needs_to_manifest": e["needs"],
    "confirmed_by_me": {"how": "tools/confirm_mutant.sh <worktree>: demo on the worktree with the change reverted (exit 0), demo with the change (exit 1), full test-suite with the change", "result": confirm},
    "checks_run_against_it": {"how": "SMG_REPO=<scratch worktree> ./check <ID> quick  (the worktree was used instead of `git -C /repo apply` because background sweeps were reading /repo at the time; same code path, see tools/try_mutant.sh)", "results": runs},
    "caught_by": e["caught_by"],
    "missed_before_strengthening": e["missed_initially"],
}
if "note" in e:
    meta["note"] = e["note"]
if "tier" in e:
    meta["tier"] = e["tier"]
json.dump(meta, open(f"{d}/meta.json", "w"), indent=1)
print(key, {c: v["exit"] for c, v in runs.items()})
