#!/usr/bin/env python3
"""usage: split_hunks.py <file-in-repo> <marker> : prints to /tmp/part_a.diff (hunks containing marker) and /tmp/part_b.diff"""
import re, subprocess, sys
f, marker = sys.argv[1], sys.argv[2]
full = subprocess.run(["git", "-C", "/repo", "diff", "--", f], capture_output=True, text=True).stdout
head, *hunks = re.split(r"(?m)^(?=@@ )", full)
a = [h for h in hunks if marker in h]
b = [h for h in hunks if marker not in h]
open("/tmp/part_a.diff", "w").write(head + "".join(a))
open("/tmp/part_b.diff", "w").write(head + "".join(b))
print(len(hunks), "hunks:", len(a), "with marker,", len(b), "without")
