#!/bin/bash
# usage: tools/try_mutant.sh <worktree> <tier> <ids...>     runs the checks against the scratch worktree (SMG_REPO)
cd "$(dirname "$0")/.." || exit 2
wt=$1; tier=$2; shift 2
for p in "$@"; do
  out=$(SMG_REPO=$wt ./check $p $tier 2>&1); rc=$?
  echo "== $p $tier rc=$rc :: $(echo "$out" | grep -E '^(VIOLATION|INCONCLUSIVE|HELD)' | head -3 | cut -c1-330)"
done
