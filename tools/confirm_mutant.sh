#!/bin/bash
# usage: tools/confirm_mutant.sh <worktree>   confirms: demo passes without the change, fails with it, test-suite passes with it
# (no git stash: the stash is shared between worktrees)
wt=$1
cd $wt || exit 2
demo=$(ls demo*.py | head -1)
p=$(mktemp /tmp/confirm-XXXX.diff)
git diff > $p
git checkout -- .
PYTHONPATH=$wt/src /venv/bin/python $demo >/dev/null 2>&1; a=$?
git apply $p
PYTHONPATH=$wt/src /venv/bin/python $demo >/dev/null 2>&1; b=$?
t=$(PYTHONPATH=$wt/src /venv/bin/python -m pytest -q -p no:cacheprovider --timeout=900 tests 2>&1 | tail -1)
rm -f $p
echo "$wt demo_without_change_rc=$a demo_with_change_rc=$b tests_with_change: $t"
