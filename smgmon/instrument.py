"""Ambient monitors: depth-aware wrappers on the public methods of the four real graph classes.

Installed by the pytest plugin (smgmon/pytest_monitor.py) so that the repository's own tests and example notebooks
become an extra, realistic workload.  Monitors run at the OUTERMOST public call only (the library calls its own public
methods internally; states inside such nesting are transient and are not inspected):
  * coherence  (C09): after every outermost mutator call the Appendix-B invariants hold on the object;
  * read-only  (C09): an outermost query leaves every raw view of the object unchanged;
  * eq => hash (C03): whenever a real __eq__ between two graphs of one class returns True (fully specified
    parities), their hashes agree.
Violations are collected, never raised into the test that happens to run."""
from __future__ import annotations

import functools
import threading

from . import model
from .snapshot import classes, raw_views, views_equal

_tls = threading.local()
EVENTS = {"calls": 0, "outermost": 0, "mutator_checks": 0, "query_checks": 0, "eq_true": 0, "eq_hash_checked": 0}
VIOLATIONS: list[dict] = []
MODES = {"coherence": True, "readonly": True, "eqhash": True}
_SKIP = {"__init__", "__hash__", "__len__", "__str__", "__repr__", "__class__", "__new__", "__getattribute__", "__setattr__", "__delattr__", "__init_subclass__", "__subclasshook__", "__reduce__", "__reduce_ex__", "__sizeof__", "__dir__", "__format__", "__getstate__", "__deepcopy__", "__copy__", "_ipython_display_"}


def _depth():
    return getattr(_tls, "depth", 0)


def _record(key, what):
    if len(VIOLATIONS) < 200:
        VIOLATIONS.append({"key": key, "what": what[:500]})


def _fully_specified(g):
    try:
        for d in list(getattr(g, "stereo", {}).values()):
            if d.parity is None:
                return False
        for m in (getattr(g, "atom_stereo_changes", {}), getattr(g, "bond_stereo_changes", {})):
            for cd in m.values():
                for d in cd.values():
                    if d is not None and d.parity is None:
                        return False
    except Exception:  # noqa: BLE001
        return False
    return True


def _wrap(cls_name, name, fn):
    is_mut = name in model.MUTATORS and name != "relabel_atoms"

    @functools.wraps(fn)
    def wrapper(self, *a, **kw):
        EVENTS["calls"] += 1
        outer = _depth() == 0
        if not outer or getattr(_tls, "busy", False):
            return fn(self, *a, **kw)
        _tls.depth = 1
        before = None
        try:
            if not is_mut and MODES["readonly"] and name not in ("relabel_atoms", "bonds_from_bond_order_matrix"):
                _tls.busy = True
                try:
                    before = raw_views(self)
                except Exception:  # noqa: BLE001
                    before = None
                finally:
                    _tls.busy = False
            result = fn(self, *a, **kw)
        finally:
            _tls.depth = 0
        EVENTS["outermost"] += 1
        _tls.busy = True
        try:
            cname = type(self).__name__
            if is_mut and MODES["coherence"]:
                EVENTS["mutator_checks"] += 1
                for inv, text in model.coherence(self, ()):
                    _record(f"C09/ambient/incoherent/{cname}/{inv}/after-{name}", f"after {name}{a!r}: {text}")
            if before is not None:
                EVENTS["query_checks"] += 1
                d = views_equal(before, raw_views(self))
                if d:
                    _record(f"C09/ambient/query-changes-view/{cname}/{name}", f"{name}{a!r} changed a view: {d[0]}")
            if name == "__eq__" and result is True and MODES["eqhash"] and a:
                EVENTS["eq_true"] += 1
                other = a[0]
                if type(other) is type(self) and len(self) > 0 and _fully_specified(self) and _fully_specified(other):
                    EVENTS["eq_hash_checked"] += 1
                    if hash(self) != hash(other):
                        _record(f"C03/ambient/eq-but-hash-differs/{cname}", f"two {cname} graphs with {len(self)} atoms compare equal but hash differently")
        except Exception as e:  # noqa: BLE001  (a monitor must never break the workload)
            EVENTS["monitor_errors"] = EVENTS.get("monitor_errors", 0) + 1
            EVENTS.setdefault("monitor_error_samples", [])
            if len(EVENTS["monitor_error_samples"]) < 3:
                EVENTS["monitor_error_samples"].append(f"{name}: {e!r}")
        finally:
            _tls.busy = False
        return result

    wrapper.__smgmon_wrapped__ = True
    return wrapper


def install(modes=None):
    if modes:
        MODES.update(modes)
    n = 0
    for cname, cls in classes().items():
        for name, attr in list(vars(cls).items()):
            if name in _SKIP or not callable(attr) or isinstance(attr, (classmethod, staticmethod, property, type)):
                continue
            if getattr(attr, "__smgmon_wrapped__", False):
                continue
            if name.startswith("_") and name not in ("__eq__",):
                continue
            setattr(cls, name, _wrap(cname, name, attr))
            n += 1
    return n


def run_ambient(prefix: str):
    """runs the repository's own test-suite (unit tests and notebooks, not the slow hypothesis file) in a subprocess
    with the monitors installed; returns (events, violations whose key starts with prefix)."""
    import glob
    import json
    import os
    import shutil
    import subprocess
    import sys
    import tempfile
    from collections import Counter

    repo = os.environ.get("SMG_REPO", "/repo")
    out = tempfile.mkdtemp(prefix="smg-ambient-")
    env = dict(os.environ, SMG_AMBIENT_OUT=out)
    try:
        r = subprocess.run([sys.executable, "-m", "pytest", "-q", "-p", "no:cacheprovider", "-p", "smgmon.pytest_monitor", "--timeout=900", "--ignore=tests/hypothesis", "tests"], cwd=repo, env=env, capture_output=True, text=True, timeout=1500)
        ev: Counter = Counter()
        viol = []
        for f in glob.glob(os.path.join(out, "*.json")):
            d = json.load(open(f))
            for k, v in d["events"].items():
                if isinstance(v, int):
                    ev[k] += v
            viol += [v for v in d["violations"] if v["key"].startswith(prefix)]
        ev["processes"] = len(glob.glob(os.path.join(out, "*.json")))
        ev["pytest_tail"] = 0
        return dict(ev), viol, r.stdout.strip().splitlines()[-1:] 
    finally:
        shutil.rmtree(out, ignore_errors=True)
