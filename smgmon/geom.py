"""Geometry workloads for C07 / C14: idealised coordination templates with noise, rigid motions,
atom permutations, reflection and the general-position filter (inputs, not verdicts)."""
from __future__ import annotations

import itertools
import math

import numpy as np

from . import sem

RCOV = None


def rcov():
    global RCOV
    if RCOV is None:
        from stereomolgraph.periodic_table import COVALENT_RADII

        RCOV = dict(COVALENT_RADII)
    return RCOV


LIGANDS = [1, 9, 17, 35, 53, 8, 16, 7, 34, 15]
CENTRES = {
    "Tetrahedral": [6, 14, 7, 15, 32],
    "SquarePlanar": [78, 46, 28, 79],
    "TrigonalBipyramidal": [15, 33, 26, 51],
    "Octahedral": [16, 26, 27, 77, 24, 42],
}
_UNIT = {k: sem.FIGURES[k][1:] / np.linalg.norm(sem.FIGURES[k][1:], axis=1, keepdims=True) for k in sem.ATOM_CENTRED}


def random_rotation(rng):
    q = np.array([rng.gauss(0, 1) for _ in range(4)])
    q /= np.linalg.norm(q)
    w, x, y, z = q
    return np.array([
        [1 - 2 * (y * y + z * z), 2 * (x * y - z * w), 2 * (x * z + y * w)],
        [2 * (x * y + z * w), 1 - 2 * (x * x + z * z), 2 * (y * z - x * w)],
        [2 * (x * z - y * w), 2 * (y * z + x * w), 1 - 2 * (x * x + y * y)],
    ])


def centre_template(rng, cls, noise=0.03, mirror=None):
    """single coordination centre with pairwise distinct monoatomic ligands.
    returns elements (index 0 = centre), coords, descriptor positions: ligand index at figure position k"""
    n = len(_UNIT[cls])
    c = rng.choice(CENTRES[cls])
    ligs = rng.sample(LIGANDS, n)
    r = rcov()
    pts = [np.zeros(3)]
    for k in range(n):
        d = r[c] + r[ligs[k]]
        pts.append(_UNIT[cls][k] * d)
    X = np.array(pts)
    X = X + np.array([[rng.gauss(0, noise) for _ in range(3)] for _ in range(n + 1)])
    if mirror if mirror is not None else rng.random() < 0.5:
        X = X * np.array([1, 1, -1.0])
        flipped = True
    else:
        flipped = False
    R = random_rotation(rng)
    X = X @ R.T + np.array([rng.uniform(-3, 3) for _ in range(3)])
    return [c, *ligs], X, flipped


def planar_bond_template(rng, noise=0.02, twist_deg=0.0):
    """X(a)(b)C=C(c)(d) like fragment with 4 distinct substituents (monoatomic), planar"""
    r = rcov()
    subs = rng.sample([1, 9, 17, 35, 53], 4)
    c1 = c2 = 6
    if rng.random() < 0.3:
        c2 = 14
    dcc = (r[c1] + r[c2]) * 0.9
    els = [c1, c2, *subs]
    X = [np.array([-dcc / 2, 0, 0]), np.array([dcc / 2, 0, 0])]
    ang = math.radians(120)
    for k, (cen, sgn) in enumerate([(0, 1), (0, -1), (1, 1), (1, -1)]):
        d = r[els[cen]] + r[subs[k]]
        dirx = -math.cos(math.pi - ang) if cen == 0 else math.cos(math.pi - ang)
        v = np.array([dirx, sgn * math.sin(math.pi - ang), 0.0])
        v /= np.linalg.norm(v)
        p = X[cen] + v * d
        if cen == 1 and twist_deg:
            t = math.radians(twist_deg)
            y, z = p[1], p[2]
            p = np.array([p[0], y * math.cos(t) - z * math.sin(t), y * math.sin(t) + z * math.cos(t)])
        X.append(p)
    X = np.array(X) + np.array([[rng.gauss(0, noise) for _ in range(3)] for _ in range(6)])
    R = random_rotation(rng)
    X = X @ R.T + np.array([rng.uniform(-3, 3) for _ in range(3)])
    return els, X


def two_centre_template(rng, noise=0.03):
    """ethane-like: two tetrahedral centres with distinct substituents, staggered"""
    r = rcov()
    a, b = rng.choice([6, 14]), rng.choice([6, 14])
    s1, s2 = rng.sample(LIGANDS[:8], 3), rng.sample(LIGANDS[:8], 3)
    dab = r[a] + r[b]
    els = [a, b, *s1, *s2]
    X = [np.zeros(3), np.array([dab, 0, 0])]
    th = math.radians(109.47)
    off = rng.uniform(40, 80)
    for k in range(3):
        phi = math.radians(120 * k)
        d = r[a] + r[s1[k]]
        X.append(np.array([d * math.cos(th), d * math.sin(th) * math.cos(phi), d * math.sin(th) * math.sin(phi)]))
    for k in range(3):
        phi = math.radians(120 * k + off)
        d = r[b] + r[s2[k]]
        X.append(np.array([dab - d * math.cos(th), d * math.sin(th) * math.cos(phi), d * math.sin(th) * math.sin(phi)]))
    X = np.array(X) + np.array([[rng.gauss(0, noise) for _ in range(3)] for _ in range(8)])
    R = random_rotation(rng)
    return els, X @ R.T + np.array([rng.uniform(-3, 3) for _ in range(3)])


def sn2_triple(rng, noise=0.02):
    """reactant (Y far, X bonded), TS (trigonal bipyramid, X and Y axial), product (Y bonded, X far);
    the three remaining substituents are distinct and invert (Walden)"""
    r = rcov()
    c = 6
    x, y = rng.sample([9, 17, 35, 53], 2)
    subs = rng.sample([17, 35, 53, 16, 34, 15], 3)
    while x in subs or y in subs:
        subs = rng.sample([17, 35, 53, 16, 34, 15, 33], 3)
    els = [c, x, y, *subs]

    def geom(tx, ty, cone):
        X = [np.zeros(3), np.array([0, 0, tx]), np.array([0, 0, -ty])]
        for k in range(3):
            phi = math.radians(120 * k)
            d = r[c] + r[subs[k]]
            X.append(np.array([d * math.sin(cone) * math.cos(phi), d * math.sin(cone) * math.sin(phi), d * math.cos(cone)]))
        return np.array(X) + np.array([[rng.gauss(0, noise) for _ in range(3)] for _ in range(6)])

    dx, dy = r[c] + r[x], r[c] + r[y]
    R_ = geom(dx, dy + 2.2, math.radians(109.47 + 0))  # substituents tilted away from X... towards -z
    # reactant: X bonded along +z, substituents point to -z side (cone angle 109.47 from +z)
    T_ = geom(dx * 1.12, dy * 1.12, math.radians(90))
    P_ = geom(dx + 2.2, dy, math.radians(180 - 109.47))
    return els, R_, T_, P_


def general_position(elements, X, margin_bond=0.05, margin_plane=0.2, thr=1.0):
    """True when no decision of the perception code sits on a threshold (for ANY atom order)."""
    r = rcov()
    n = len(elements)
    D = np.linalg.norm(X[:, None, :] - X[None, :, :], axis=-1)
    nbrs = {i: set() for i in range(n)}
    for i in range(n):
        for j in range(i + 1, n):
            cut = 1.2 * (r[elements[i]] + r[elements[j]])
            if abs(D[i, j] - cut) < margin_bond * cut:
                return False
            if D[i, j] < cut:
                nbrs[i].add(j)
                nbrs[j].add(i)

    def quad_ok(idx):
        for quad in itertools.combinations(idx, 4):
            for apex in quad:
                base = [q for q in quad if q != apex]
                v1, v2 = X[base[0]] - X[base[1]], X[base[2]] - X[base[1]]
                nrm = np.cross(v1, v2)
                ln = np.linalg.norm(nrm)
                if ln < 0.15 * np.linalg.norm(v1) * np.linalg.norm(v2):
                    return False  # near-collinear base
                dist = abs(np.dot(nrm / ln, X[apex] - X[base[1]]))
                if abs(dist - thr) < margin_plane * thr:
                    return False
        return True

    for i in range(n):
        k = len(nbrs[i])
        if k in (4, 5, 6) and not quad_ok(sorted(nbrs[i])):
            return False
        if k == 5:
            lig = sorted(nbrs[i])
            angs = sorted((_angle(X[a], X[i], X[b]) for a, b in itertools.combinations(lig, 2)), reverse=True)
            if angs[0] - angs[1] < 10:
                return False
        if k == 4:
            lig = sorted(nbrs[i])
            sums = []
            for order in itertools.permutations(lig):
                if order[0] != lig[0]:
                    continue
                sums.append(sum(_angle(X[order[j]], X[order[(j + 1) % 4]], X[order[(j + 2) % 4]]) for j in range(4)))
            sums = sorted(set(round(s, 6) for s in sums), reverse=True)
            if len(sums) > 1 and sums[0] - sums[1] < 10 and _max_plane_dist(X, lig) < thr * (1 + margin_plane):
                return False
        if k == 3:
            for j in nbrs[i]:
                if len(nbrs[j]) == 3:
                    six = sorted((nbrs[i] | nbrs[j]))
                    if len(six) == 6:
                        if not quad_ok(six):
                            return False
                        a = [q for q in nbrs[i] if q != j]
                        b = [q for q in nbrs[j] if q != i]
                        u = X[a[0]] - X[a[1]]
                        v = X[b[0]] - X[b[1]]
                        if abs(np.dot(u, v) / (np.linalg.norm(u) * np.linalg.norm(v))) < 0.2:
                            return False
    return True


def _max_plane_dist(X, lig):
    m = 0.0
    for apex in lig:
        base = [q for q in lig if q != apex]
        nrm = np.cross(X[base[0]] - X[base[1]], X[base[2]] - X[base[1]])
        ln = np.linalg.norm(nrm)
        if ln > 1e-9:
            m = max(m, abs(np.dot(nrm / ln, X[apex] - X[base[1]])))
    return m


def apex_distances(X, quad):
    """distance of each of four points from the plane of the other three"""
    out = []
    for apex in quad:
        base = [q for q in quad if q != apex]
        nrm = np.cross(X[base[0]] - X[base[1]], X[base[2]] - X[base[1]])
        ln = np.linalg.norm(nrm)
        out.append(abs(np.dot(nrm / ln, X[apex] - X[base[1]])) if ln > 1e-9 else 0.0)
    return out


def straddles(X, pts, thr=1.0):
    """True when some four of the points are 'planar' seen from one apex and 'not planar' seen from another (the
    distance of one point from the plane of the other three is below thr, that of another point above). The library's
    are_planar() evaluates a single apex per quadruple - the last one in input order."""
    pts = list(dict.fromkeys(p for p in pts if p is not None))  # a ring atom can be a substituent of both ends of a bond
    for quad in itertools.combinations(pts, 4):
        d = apex_distances(X, quad)
        if min(d) < thr < max(d):
            return True
    return False


def _angle(a, b, c):
    u, v = a - b, c - b
    cs = np.dot(u, v) / (np.linalg.norm(u) * np.linalg.norm(v))
    return math.degrees(math.acos(max(-1.0, min(1.0, cs))))


def transform(rng, X, kind):
    """returns (X', permutation perm with X'[k] = T(X[perm[k]]), mirrored?)"""
    n = len(X)
    perm = list(range(n))
    mirrored = False
    Y = X.copy()
    if kind in ("rotate", "all", "rot+perm"):
        Y = Y @ random_rotation(rng).T + np.array([rng.uniform(-20, 20) for _ in range(3)])
    if kind == "translate":
        # up to 1e8 A from the origin: float64 still resolves 1.5e-8 A there, the shape is unchanged; formulas that
        # subtract squared norms instead of coordinates lose it
        mag = rng.choice([100.0, 100.0, 1e4, 1e6, 1e8])
        Y = Y + np.array([rng.uniform(-1, 1) * mag for _ in range(3)])
    if kind in ("reflect", "all"):
        nrm = np.array([rng.gauss(0, 1) for _ in range(3)])
        nrm /= np.linalg.norm(nrm)
        Y = Y - 2 * np.outer(Y @ nrm, nrm)
        mirrored = True
    if kind in ("permute", "all", "rot+perm"):
        rng.shuffle(perm)
        Y = Y[perm]
    return Y, perm, mirrored
