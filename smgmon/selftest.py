"""Harness self-tests: run by setup_cmd and (cheap parts) at the start of every worker."""
from __future__ import annotations

import random

from . import gen, sem


def enumerator_selftest(n=150, seed=12345):
    """the adjacency-pruned backtracker must equal plain permutation brute force"""
    rng = random.Random(seed)
    checked = nonempty = 0
    for i in range(n):
        cls = rng.choice(["MolGraph", "StereoMolGraph", "CondensedReactionGraph", "StereoCondensedReactionGraph"])
        g = gen.random_pg(rng, cls, n_range=(1, 6), alphabet=gen.TINY, id_kind="range", allow_empty=True)
        if rng.random() < 0.5:
            m = gen.random_bijection(rng, g, "perm")
            h = sem.pg_relabel(g, m)
            if rng.random() < 0.4:
                r = gen.mutate(rng, h)
                if r:
                    h = r[1]
        else:
            h = gen.random_pg(rng, cls, n_range=(len(g["atoms"]) or 1,) * 2, alphabet=gen.TINY, id_kind="range", allow_isolated=False)
        for stereo in (True, False):
            a = sorted(tuple(sorted(f.items())) for f in sem.brute_isos(g, h, stereo, stereo))
            b = sorted(tuple(sorted(f.items())) for f in sem.iter_isos(g, h, stereo, stereo))
            assert a == b, ("reference enumerators disagree", g, h, a, b)
            assert len(set(b)) == len(b)
            checked += 1
            nonempty += bool(a)
    assert nonempty > n // 4, nonempty
    return checked, nonempty


def main():
    from .runner import assert_repo

    assert_repo()
    sem.self_test()
    c, n = enumerator_selftest()
    print(f"selftest ok: groups 12/8/6/24/4/4; reference enumerators agree on {c} pairs ({n} with isomorphisms)")
    return 0
