"""Known-findings file: read only, never written at run time.

Line format
    known: property=C18 key=<mechanism key> <what fails, with a concrete failing input>
    fixed: property=C01 <commit> <what failed>
'fixed:' lines suppress nothing.  A key may end in '*' to cover a family of sub-keys that
share one mechanism (used sparingly; see DESIGN.md 1.8)."""
from __future__ import annotations

from pathlib import Path

FILE = Path(__file__).resolve().parent.parent / "KNOWN_FINDINGS.txt"


def load():
    out = []
    if not FILE.exists():
        return out
    for line in FILE.read_text().splitlines():
        line = line.strip()
        if not line.startswith("known:"):
            continue
        rest = line[len("known:"):].strip().split(None, 2)
        if len(rest) < 2 or not rest[0].startswith("property=") or not rest[1].startswith("key="):
            continue
        out.append((rest[0][9:], rest[1][4:], rest[2] if len(rest) > 2 else ""))
    return out


def match(known, prop, key):
    for p, k, text in known:
        if p != prop:
            continue
        if k == key or (k.endswith("*") and key.startswith(k[:-1])):
            return k, (text or k)
    return None
