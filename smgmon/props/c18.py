"""C18 - bond-order perception never alters connectivity and completes octets."""
from __future__ import annotations

import random

import numpy as np

from .. import sem
from ..snapshot import build

LEVEL = "exploration"
RULE = (
    "(structural) random symmetric 0/1 matrices with zero diagonal, 1-9 atoms, densities from empty to complete, element "
    "lists from the supported table (H,B,C,N,O,F,Si,P,S,Cl,Ge,Br,I,Pt) plus at most one element outside it, "
    "allow_charged_fragments on/off, charge in {0,+-1}: the result (icontract postcondition on connectivity2bond_orders "
    "incl. its alias in graph2rdmol, and direct oracle) must be an integer symmetric matrix that is >= 1 exactly on bonded "
    "pairs and 0 elsewhere, and the input must not be modified; (chemical) ~90 neutral closed-shell molecules over "
    "C,H,N,O,F,Cl,Br,I,S(II/VI),P(III/V) - chains, rings, aromatics, azoles/azines, cumulenes, alkynes, nitriles, carbonyls, "
    "sulfones, phosphine oxides - each in several random atom orders: every atom must get a standard valence, all charges 0, "
    "no unpaired electrons, in every order; (rdkit path) to_rdmol(generate_bond_orders=True) on graphs with ids != positions "
    "must carry exactly the matrix's bond orders. Non-trivial: matrix has >= 1 bond / molecule has a multiple bond or is "
    "presented in a non-identity order; distinct by (canonical SMILES or matrix invariants, order id)."
)
ASSUMPTIONS = [
    "standard valences: H 1, C 4, N 3, O 2, halogens 1, S 2 or 6, P 3 or 5, B 3, Si 4",
    "exceptions for element lists outside the supported table are recorded, not judged; a per-case alarm of 20 s makes a case inconclusive",
    "RDKit only supplies connectivity of the corpus molecules",
]
ANCHORS = [
    "stereomolgraph.algorithms.bond_orders:connectivity2bond_orders",
    "stereomolgraph.algorithms.bond_orders:_AC2BO",
    "stereomolgraph.algorithms.bond_orders:_get_BO",
    "stereomolgraph.algorithms.bond_orders:_get_UA_pairs",
    "stereomolgraph.algorithms.bond_orders:_BO_is_OK",
    "stereomolgraph.graph2rdmol:set_bond_orders",
]
REQUIRED_ANCHORS = ANCHORS
REQUIRED = ["structural_cases", "chemical_cases", "rdkit_path_cases", "contract_evaluations", "orders_checked", "aromatic_molecules", "cumulated_molecules", "random_chain_molecules", "matrix_given_as:uint8", "matrix_given_as:bool", "matrix_given_as:float64", "matrix_given_as:list"]
CASE_TIMEOUT = 20
SUPPORTED = [1, 5, 6, 7, 8, 9, 14, 15, 16, 17, 32, 35, 53, 78]
STD = {1: {1}, 5: {3}, 6: {4}, 7: {3}, 8: {2}, 9: {1}, 14: {4}, 15: {3, 5}, 16: {2, 6}, 17: {1}, 35: {1}, 53: {1}}
MOLECULES = [
    "C", "CC", "C=C", "C#C", "CC=C", "C=CC=C", "C=C=C", "C=C=C=C", "O=C=O", "C=C=O", "CC#N", "N#CC#N", "C#CC#C", "CO", "C=O", "CC(=O)C", "CC(=O)O", "CC(=O)N", "NC(=O)N", "OC(=O)O",
    "c1ccccc1", "Cc1ccccc1", "c1ccc2ccccc2c1", "c1ccncc1", "c1ccnnc1", "c1cncnc1", "c1cnccn1", "c1cc[nH]c1", "c1ccoc1", "c1ccsc1", "c1c[nH]cn1", "c1cscn1", "c1cocn1", "c1cn[nH]c1", "c1ccc2[nH]ccc2c1", "c1ccc2ncccc2c1", "Oc1ccccc1", "Nc1ccccc1", "O=Cc1ccccc1", "Clc1ccc(Br)cc1",
    # low-coordinate hypervalent centres: the standard valence is not ruled out by the neighbour count alone
    "CP(=O)=O", "OP(=O)=O", "CN=P(C)=NC", "C=P(C)=C", "C=P(C)=NC", "O=S(=O)=O", "C=S(=O)=O", "CN=S(=O)=O", "N#S(F)(F)F", "C=P(=O)C", "O=P(Cl)(Cl)Cl", "CC=P(C)(C)C", "COP(=O)=O", "CS(=O)(=O)C=C", "O=S(=O)(C=C)C=C", "CP(=O)(C=C)C#C",
    "CS(C)(=O)=O", "CS(=O)(=O)N", "OS(=O)(=O)O", "CSC", "CSSC", "CS", "C=S", "S=C=S", "CP(C)C", "CP(C)(C)=O", "OP(O)(O)=O", "COP(=O)(OC)OC", "P#C", "CN", "CNC", "CN(C)C", "C=N", "CN=C", "N=N", "CN=NC",
    "C1CC1", "C1CCC1", "C1CCCCC1", "C1=CCCCC1", "C1=CC=CCC1", "C1=CCC=CC1", "O=C1CCCCC1", "O=C1C=CC(=O)C=C1", "C1=CC=C1", "C1CC=CC1", "FC(F)(F)F", "ClC(Cl)Cl", "BrCCBr", "ICI", "FC=CF", "ClC#CCl", "OCCO", "OCC(O)CO", "NCC(=O)O", "CC(N)C(=O)O",
    "c1ccsn1", "c1ncsn1", "c1nncs1", "c1nnco1", "c1ccc2scnc2c1", "c1ccc2sccc2c1", "c1ccc2occc2c1", "Cc1ncsc1C", "Nc1nccs1", "c1csc(n1)c1ccccc1", "c1cc[pH]c1", "c1ccpcc1", "CSc1ccccc1", "CS(=O)(=O)c1ccccc1", "c1ccc2c(c1)Sc1ccccc1N2", "O=S(=O)(c1ccccc1)c1ccccc1", "c1cnsn1", "S1C=CC=C1", "CC1=CSC=N1", "N#Cc1cccs1",
    "Cn1c(=O)c2c(ncn2C)n(C)c1=O", "O=c1cc[nH]c(=O)[nH]1", "Nc1ncnc2[nH]cnc12", "c1ccc(cc1)c1ccccc1", "C(=O)(Cl)Cl", "CC(C)=O", "C=CC=O", "N#CC=C", "OC=O", "NC=O",
]
_contract = {"n": 0}


class ContractBroken(Exception):
    pass


def setup(ctx):
    import icontract
    import stereomolgraph.algorithms.bond_orders as bo
    import stereomolgraph.graph2rdmol as g2r

    def well_formed(connectivity_matrix, result):
        _contract["n"] += 1
        m = np.asarray(result[0])
        ac = np.asarray(connectivity_matrix)
        return (
            m.shape == ac.shape
            and np.issubdtype(m.dtype, np.integer)
            and bool((m == m.T).all())
            and bool(((m >= 1) == (ac != 0)).all())
            and bool((m[ac == 0] == 0).all())
        )

    wrapped = icontract.ensure(well_formed, error=lambda result: ContractBroken("bond-order matrix is not an integer symmetric matrix that is >= 1 exactly on bonded pairs"))(bo.connectivity2bond_orders)
    bo.connectivity2bond_orders = wrapped
    g2r.connectivity2bond_orders = wrapped  # alias bound at import time in graph2rdmol


def random_chain(rng):
    """random neutral closed-shell unsaturated chain (cumulated / conjugated / isolated multiple bonds in any mix,
    optional methyl or heteroatom branches); valences respected by construction, hydrogens left to RDKit"""
    VAL = {"C": 4, "N": 3, "O": 2, "S": 2}
    L = rng.randint(2, 9)
    atoms = [rng.choice("CCCCCCNO") for _ in range(L)]
    if rng.random() < 0.5:
        atoms[0] = rng.choice("CCCNOS")
        atoms[-1] = rng.choice("CCCNOS")
    used = [0] * L
    bonds = []
    for i in range(L - 1):
        room = min(VAL[atoms[i]] - used[i], VAL[atoms[i + 1]] - (1 if i + 2 < L else 0))
        if room < 1:
            return None
        b = rng.choice([o for o in (1, 1, 2, 2, 2, 3) if o <= room])
        bonds.append(b)
        used[i] += b
        used[i + 1] += b
    out = ""
    for i, a in enumerate(atoms):
        out += a
        if a == "C" and VAL[a] - used[i] >= 1 and rng.random() < 0.15:
            out += rng.choice(["(C)", "(F)", "(O)", "(N)", "(Cl)"])
        if i < L - 1:
            out += {1: "", 2: "=", 3: "#"}[bonds[i]]
    return out


def random_hypervalent(rng):
    """two or three hypervalent groups (sulfonyl, phosphoryl; S(IV) is outside the statement) joined by saturated / unsaturated linkers with
    saturated or unsaturated end groups: several atoms with an odd number of unsaturated neighbours in one molecule
    (more pairs wanted than a matching can hold), next to atoms that keep unsaturation after the first pairing round"""
    G = ["S(=O)(=O)", "S(=O)(=O)", "P(=O)(C)", "P(=O)(O)"]
    LINK = ["C#C", "C=C", "C", "CC", "c1ccc(cc1)", "N", "O", "C(=O)", "C=CC=C"]
    HEAD = ["C", "N#C", "O=C=N", "O", "C=C", "F", "N", "c1ccccc1", "C#C"]
    TAIL = ["C", "C#N", "N=C=O", "O", "C=C", "F", "N", "c1ccccc1", "C#C"]
    if rng.random() < 0.25:
        # a carbon core with three or four arms that end in three-coordinate P(V) (metaphosphate / metaphosphonate) or in a
        # sulfonate: every such phosphorus is a step away from the lowest valences, the right combination is found late
        arms = [rng.choice(["COP(=O)=O", "COP(=O)=O", "CP(=O)=O", "COS(=O)(=O)C", "CO"]) for _ in range(rng.randint(3, 4))]
        return "C" + "".join(f"({a})" for a in arms[:-1]) + arms[-1]
    out = rng.choice(HEAD) + rng.choice(G)
    for _ in range(rng.randint(1, 2)):
        out += rng.choice(LINK) + rng.choice(G)
    return out + rng.choice(TAIL)


def random_ring(rng):
    """random (hetero)aromatic 5- or 6-ring with 0-2 substituents / fused benzene; validity is decided by RDKit"""
    if rng.random() < 0.5:
        ring = ["c"] * 6
        for i in rng.sample(range(6), rng.choice([0, 1, 1, 2, 3])):
            ring[i] = "n"
    else:
        ring = [rng.choice(["[nH]", "o", "s"])] + ["c"] * 4
        for i in rng.sample(range(1, 5), rng.choice([0, 0, 1, 2])):
            ring[i] = "n"
    subs = ["", "", "", "C", "F", "Cl", "O", "N", "C#N", "C=O", "C=C", "S(C)(=O)=O", "OC"]
    out = ""
    for i, a in enumerate(ring):
        out += a + ("1" if i == 0 else "")
        if a == "c" and rng.random() < 0.3:
            sb = rng.choice(subs)
            if sb:
                out += f"({sb})"
    return out + "1"


def gen_cases(ctx):
    rng = ctx.rng
    n = ctx.n(9600, 120000)
    for i in range(n):
        k = i % 6
        if k == 3 and (i // 6) % 2 == 1:  # random neutral closed-shell molecule grown under standard valences (molgen)
            from .. import molgen

            smi = molgen.random_smiles(rng, n_heavy=(3, 14), p_double=0.3, p_triple=0.08, p_ring=0.5)
            if smi:
                yield {"kind": "chemical", "smiles": smi, "oseed": rng.randrange(1 << 30), "n_orders": 6 if ctx.tier == "quick" else 16, "source": "random-molecule"}
                continue
        if k == 4 and (i // 6) % 6 == 2:
            yield {"kind": "chemical", "smiles": random_hypervalent(rng), "oseed": rng.randrange(1 << 30), "n_orders": 8 if ctx.tier == "quick" else 24, "source": "random-hypervalent"}
            continue
        if k == 4:
            smi = random_chain(rng) if (i // 6) % 2 == 0 else random_ring(rng)
            if smi:
                yield {"kind": "chemical", "smiles": smi, "oseed": rng.randrange(1 << 30), "n_orders": 6 if ctx.tier == "quick" else 16, "source": "random-chain"}
                continue
        if k < 3:
            na = rng.randint(1, 9)
            dens = rng.choice([0.0, 0.15, 0.3, 0.5, 1.0])
            els = [rng.choice(SUPPORTED[:12]) for _ in range(na)]
            if rng.random() < 0.15:
                els[rng.randrange(na)] = rng.choice([2, 3, 11, 13, 26, 34, 46])
            pairs = [[a, b] for a in range(na) for b in range(a + 1, na) if rng.random() < dens]
            yield {"kind": "structural", "elements": els, "pairs": pairs, "acf": rng.random() < 0.4, "charge": rng.choice([0, 0, 0, 1, -1])}
        elif k < 5:
            yield {"kind": "chemical", "smiles": MOLECULES[((i // 6 * 2 + (k - 3)) * ctx.nshards + ctx.shard) % len(MOLECULES)], "oseed": rng.randrange(1 << 30), "n_orders": 6 if ctx.tier == "quick" else 16}
        else:
            yield {"kind": "rdkit", "smiles": MOLECULES[((i // 6) * ctx.nshards + ctx.shard) % len(MOLECULES)], "oseed": rng.randrange(1 << 30)}


def check_case(ctx, case):
    try:
        if case["kind"] == "structural":
            return _structural(ctx, case)
        if case["kind"] == "chemical":
            return _chemical(ctx, case)
        return _rdkit(ctx, case)
    finally:
        for k_, v_ in _dtype_counts.items():
            ctx.count(f"matrix_given_as:{k_}", v_)
        _dtype_counts.clear()


_DTYPES = ("int64", "int8", "int32", "uint8", "uint32", "bool", "float64", "list")
_dtype_counts: dict = {}


def _call(els, ac, **kw):
    """the same 0/1 matrix is handed over in turn as signed / unsigned integer, boolean and float array and as a list
    of lists (chosen from the matrix itself, replayable)"""
    import warnings
    import zlib

    from stereomolgraph.algorithms import bond_orders as bo

    arr = np.asarray(ac)
    kind = _DTYPES[zlib.crc32(arr.astype("int8").tobytes() + bytes(len(els) % 251 for _ in range(1))) % len(_DTYPES)]
    _dtype_counts[kind] = _dtype_counts.get(kind, 0) + 1
    given = arr.astype(int).tolist() if kind == "list" else arr.astype(kind)
    with warnings.catch_warnings():
        warnings.simplefilter("ignore")
        return bo.connectivity2bond_orders(els, given, **kw)


def _structural(ctx, case):
    els = case["elements"]
    n = len(els)
    ac = np.zeros((n, n), dtype=int)
    for a, b in case["pairs"]:
        ac[a, b] = ac[b, a] = 1
    before = ac.copy()
    supported = all(e in SUPPORTED for e in els)
    ctx.case(("structural", n, tuple(sorted(els)), len(case["pairs"]), tuple(np.sort(ac.sum(axis=0)))), len(case["pairs"]) >= 1)
    ctx.count("structural_cases")
    n0 = _contract["n"]
    try:
        bom, charges, unpaired = _call(els, ac, allow_charged_fragments=case["acf"], charge=case["charge"])
    except ContractBroken as e:
        ctx.violate(f"C18/structure/malformed-matrix/{'supported' if supported else 'unsupported-element'}", str(e), case)
        return
    except Exception as e:  # noqa: BLE001
        if supported:
            ctx.violate(f"C18/structure/raises:{type(e).__name__}", f"connectivity2bond_orders raised {e!r} for supported elements {els}", case)
        else:
            ctx.count(f"recorded:raises-for-unsupported-element:{type(e).__name__}")
        return
    ctx.count("contract_evaluations", _contract["n"] - n0)
    m = np.asarray(bom)
    if (ac != before).any():
        ctx.violate("C18/structure/input-modified", "the connectivity matrix passed in was modified", case)
    ok = m.shape == (n, n) and np.issubdtype(m.dtype, np.integer) and (m == m.T).all() and ((m >= 1) == (before == 1)).all()
    if not ok:
        ctx.violate("C18/structure/malformed-matrix/direct", f"bond-order matrix {m.tolist()} for connectivity {before.tolist()}", case)
    if len(charges) != n or len(unpaired) != n:
        ctx.violate("C18/structure/charge-or-radical-list-length", f"{len(charges)} charges / {len(unpaired)} radicals for {n} atoms", case)
    ctx.sample({"kind": "structural", "elements": els, "pairs": case["pairs"], "bond_orders": m.tolist()})


def _mol(smiles):
    from rdkit import Chem

    m = Chem.AddHs(Chem.MolFromSmiles(smiles))
    els = [a.GetAtomicNum() for a in m.GetAtoms()]
    n = len(els)
    ac = np.zeros((n, n), dtype=int)
    for b in m.GetBonds():
        ac[b.GetBeginAtomIdx(), b.GetEndAtomIdx()] = ac[b.GetEndAtomIdx(), b.GetBeginAtomIdx()] = 1
    arom = any(a.GetIsAromatic() for a in m.GetAtoms())
    cumul = sum(1 for a in m.GetAtoms() if a.GetDegree() == 2 and sum(1 for b in a.GetBonds() if b.GetBondType() == Chem.BondType.DOUBLE) == 2)
    multiple = any(b.GetBondTypeAsDouble() > 1 for b in m.GetBonds())
    return m, els, ac, arom, cumul, multiple


def _chemical(ctx, case):
    try:
        m, els, ac, arom, cumul, multiple = _mol(case["smiles"])
    except Exception:  # noqa: BLE001  (generated SMILES that RDKit rejects)
        ctx.count("skipped:rdkit-rejects-generated-smiles")
        return
    n = len(els)
    rng = random.Random(case["oseed"])
    ctx.count("chemical_cases")
    if case.get("source") == "random-chain":
        ctx.count("random_chain_molecules")
    if arom:
        ctx.count("aromatic_molecules")
    if cumul:
        ctx.count("cumulated_molecules")
    if cumul >= 2:
        ctx.count("multi_cumulated_molecules")
    results = {}
    for k in range(case["n_orders"]):
        perm = list(range(n))
        if k:
            rng.shuffle(perm)
        e2 = [els[p] for p in perm]
        a2 = ac[np.ix_(perm, perm)]
        ctx.case((case["smiles"], tuple(perm)), multiple or k > 0)
        ctx.count("orders_checked")
        try:
            bom, charges, unpaired = _call(e2, a2, allow_charged_fragments=False, charge=0)
        except ContractBroken as e:
            ctx.violate("C18/chemical/malformed-matrix", f"{case['smiles']}: {e}", dict(case, perm=perm))
            return
        except Exception as e:  # noqa: BLE001
            ctx.violate(f"C18/chemical/raises:{type(e).__name__}", f"{case['smiles']}: {e!r}", dict(case, perm=perm))
            return
        bom = np.asarray(bom)
        val = bom.sum(axis=1)
        bad = [(int(perm[i]), int(e2[i]), int(val[i])) for i in range(n) if int(val[i]) not in STD.get(e2[i], set())]
        tag = "heteroaromatic" if (arom and any(e in (7, 8, 16) for e in els)) else "aromatic" if arom else "multi-cumulated" if cumul >= 2 else "cumulated" if cumul else "plain"
        results[k] = not bad and not any(charges) and not any(unpaired)
        if bad or any(charges) or any(unpaired):
            dep = "order-dependent" if any(results.values()) else "identity-order" if k == 0 else "all-orders-so-far"
            ctx.violate(f"C18/chemical/valence/{tag}/{dep}", f"{case['smiles']} in atom order #{k}: non-standard valences (atom, Z, valence) {bad[:4]}, charges {[c for c in charges if c]}, unpaired {[u for u in unpaired if u]}", dict(case, perm=perm))
            return
    ctx.sample({"kind": "chemical", "smiles": case["smiles"], "orders": case["n_orders"]})


def _rdkit(ctx, case):
    from stereomolgraph.graphs.mg import MolGraph

    m, els, ac, arom, cumul, multiple = _mol(case["smiles"])
    n = len(els)
    rng = random.Random(case["oseed"])
    ids = rng.sample(range(1, 100000), n)
    order = list(range(n))
    rng.shuffle(order)
    g = MolGraph()
    for i in order:
        g.add_atom(ids[i], els[i])
    for i in range(n):
        for j in range(i + 1, n):
            if ac[i, j]:
                g.add_bond(ids[i], ids[j])
    ctx.count("rdkit_path_cases")
    ctx.case(("rdkit", case["smiles"], tuple(order)), True)
    atoms = list(g.atoms)
    try:
        bom, _, _ = _call(list(g.atom_types), g.connectivity_matrix(), allow_charged_fragments=False, charge=0)
        mol = g.to_rdmol(generate_bond_orders=True)
        mol2, idx2id = g._to_rdmol(generate_bond_orders=True)
    except Exception as e:  # noqa: BLE001
        ctx.violate(f"C18/rdkit-path/raises:{type(e).__name__}", f"{case['smiles']}: to_rdmol(generate_bond_orders=True) raised {e!r}", case)
        return
    bom = np.asarray(bom)
    pos = {a: i for i, a in enumerate(atoms)}
    if mol2.GetNumBonds() != len(g.bonds):
        ctx.violate("C18/rdkit-path/bond-count", f"{case['smiles']}: rdkit molecule has {mol2.GetNumBonds()} bonds, graph {len(g.bonds)}", case)
        return
    for b in mol2.GetBonds():
        a1, a2 = idx2id[b.GetBeginAtomIdx()], idx2id[b.GetEndAtomIdx()]
        want = int(bom[pos[a1], pos[a2]])
        got = b.GetBondTypeAsDouble()
        if not g.has_bond(a1, a2) or got != want:
            ctx.violate("C18/rdkit-path/bond-order-differs-from-matrix", f"{case['smiles']}: bond {a1}-{a2} has rdkit order {got}, matrix says {want}", case)
            return
