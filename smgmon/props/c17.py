"""C17 - subgraph, compose and connected components form a consistent algebra."""
from __future__ import annotations

import random

from .. import gen, model, sem
from ..snapshot import CLASS_NAMES, DerivationWrong, build, build_case, classes, pg_from_json, pg_to_json, snap

LEVEL = "exploration"
RULE = (
    "graphs of the four classes with attributes, descriptors that cross the cut (incl. placeholders) and stereo changes; "
    "subsets S passed as list, tuple, set, frozenset, dict keys view, generator and one-shot iterator; connected_components "
    "and node_connected_component; compose of the component subgraphs, of random disjoint partitions and of overlapping "
    "induced pieces (list / tuple). Oracle on plain data: subgraph(S) == induced labelled subgraph (atoms+attributes, bonds+"
    "attributes, exactly the descriptors and change slots whose non-placeholder atoms all lie in S), components == union-find "
    "partition, compose == labelled union with later pieces winning, compose(component subgraphs) == g on every view and "
    "under ==; results pass the C09 coherence invariants; the source is unchanged. Non-trivial: S is a proper non-empty "
    "subset cutting >=1 bond or descriptor, or a compose of >=2 pieces; distinct by (class, invariants, |S|, iterable kind "
    "/ cover kind)."
)
ASSUMPTIONS = ["reference subgraph / union / components on plain data (sem.py)"]
ANCHORS = [
    "stereomolgraph.graphs.mg:MolGraph.subgraph",
    "stereomolgraph.graphs.smg:StereoMolGraph.subgraph",
    "stereomolgraph.graphs.mg:MolGraph.compose",
    "stereomolgraph.graphs.smg:StereoMolGraph.compose",
    "stereomolgraph.graphs.scrg:StereoCondensedReactionGraph.compose",
    "stereomolgraph.graphs.mg:MolGraph.connected_components",
    "stereomolgraph.graphs.mg:MolGraph.node_connected_component",
]
REQUIRED_ANCHORS = ANCHORS
ITERABLES = ("list", "tuple", "set", "frozenset", "keys", "generator", "iterator")
REQUIRED = ["subgraphs", "composes", "component_checks", "recompose_components", "cut_descriptor", "cut_change", "with_placeholder"] + [f"iterable:{k}" for k in ITERABLES] + ["cover:components", "cover:partition", "cover:overlap", "scale_cases", "mixed_class_pieces", "conflicting_overlaps", "base_class_compose_of_derived_pieces", "dangling_descriptor_fragments", "dangling_full_selection"]


def as_iterable(kind, S):
    S = list(S)
    if kind == "list":
        return S
    if kind == "tuple":
        return tuple(S)
    if kind == "set":
        return set(S)
    if kind == "frozenset":
        return frozenset(S)
    if kind == "keys":
        return dict.fromkeys(S).keys()
    if kind == "generator":
        return (x for x in S)
    return iter(S)


def gen_cases(ctx):
    rng = ctx.rng
    n = ctx.n(16000, 200000)
    for i in range(n):
        cls = CLASS_NAMES[i % 4]
        pg = gen.random_pg(rng, cls, n_range=(2, 10) if ctx.tier == "quick" else (2, 18), alphabet=gen.SMALL, attrs=True, p_stereo=0.8, p_change=0.5, p_role=0.4, p_none=rng.choice([0, 0.15]))
        ids = list(pg["atoms"])
        subs = []
        for k in range(4):
            kind = ITERABLES[(i // 4 + k) % len(ITERABLES)]
            how = rng.random()
            if how < 0.1:
                S = ids[:]
            elif how < 0.15:
                S = []
            else:
                S = rng.sample(ids, rng.randint(1, len(ids)))
            if S and kind in ("list", "tuple", "generator", "iterator") and rng.random() < 0.25:
                # atoms named more than once (S flattened from bonds / rings); sometimes exactly n_atoms entries long
                S = S + [rng.choice(S) for _ in range(rng.choice([1, 2, max(0, len(ids) - len(S))]))]
                rng.shuffle(S)
            subs.append([kind, S])
        yield {"cls": cls, "pg": pg_to_json(pg), "subsets": subs, "cover": ("components", "partition", "overlap")[(i // 4) % 3], "pseed": rng.randrange(1 << 30), "pieces_as": rng.choice(["list", "tuple", "generator", "iterator"])}
    # fragments whose descriptors / stereo changes name a ligand that is NOT an atom of the graph (a fragment prepared for
    # a later compose: the setters only look at the centre). subgraph(S) keeps "precisely those ... all of whose atoms lie
    # in S" - for S = all atoms too (seeded C17h: "everything selected" fast path returning a copy)
    for i in range(ctx.n(1600, 16000)):
        cls = ("StereoMolGraph", "StereoCondensedReactionGraph")[i % 2]
        pg = gen.random_pg(rng, cls, n_range=(4, 10), alphabet=gen.SMALL, attrs=i % 3 == 0, p_stereo=0.9, p_change=0.5, p_role=0.3, p_none=rng.choice([0, 0.15]))
        ids = list(pg["atoms"])
        S0 = rng.sample(ids, rng.randint(2, len(ids) - 1))
        subs = [[ITERABLES[(i // 2 + k) % len(ITERABLES)], S0[:] if k < 2 else rng.sample(S0, rng.randint(1, len(S0)))] for k in range(3)]
        yield {"cls": cls, "pg": pg_to_json(pg), "dangling": S0, "subsets": subs, "pseed": rng.randrange(1 << 30)}
    yield from _scale_cases(ctx, rng)


def _check_dangling(ctx, case, pg, g, cls):
    """g.subgraph(S0), with the descriptors / changes that cross the cut put back through the public setters"""
    from ..snapshot import mk_desc

    S0 = set(case["dangling"])
    inside = lambda d: all(x in S0 for x in sem.desc_atoms(d))
    try:
        f = g.subgraph(list(case["dangling"]))
        n = 0
        for a, d in pg["astereo"].items():
            if a in S0 and not inside(d):
                f.set_atom_stereo(mk_desc(d)); n += 1
        for b, d in pg["bstereo"].items():
            if b <= S0 and not inside(d):
                f.set_bond_stereo(mk_desc(d)); n += 1
        for key, setter in (("achange", "set_atom_stereo_change"), ("bchange", "set_bond_stereo_change")):
            for c, v in pg[key].items():
                inS = (c in S0) if key == "achange" else (c <= S0)
                if inS and any(not inside(d) for d in v.values()):
                    getattr(f, setter)(**{s_.lower(): mk_desc(d) for s_, d in v.items()}); n += 1
    except Exception as e:  # noqa: BLE001
        ctx.count(f"harness:dangling-setup-raised:{type(e).__name__}")
        return
    if not n:
        return
    src = snap(f)
    ctx.count("dangling_descriptor_fragments")
    for kind, S in case["subsets"]:
        want = sem.pg_subgraph(src, set(S))
        ctx.case((sem.canon_key(pg), len(set(S)), kind, "dangling"), True)
        ctx.count("subgraphs")
        if set(S) == S0:
            ctx.count("dangling_full_selection")
        try:
            h = f.subgraph(as_iterable(kind, S))
        except Exception as e:  # noqa: BLE001
            ctx.violate(f"C17/subgraph-raises:{type(e).__name__}/{cls}/dangling", f"subgraph({kind} of {len(S)} atoms) raised {e!r}", case)
            continue
        _check_graph(ctx, h, want, cls, case, f"subgraph/{cls}/dangling", f"subgraph({kind} {sorted(S, key=repr)[:6]}) of a fragment whose descriptors name absent atoms")
        if sem.pg_diff(src, snap(f), mode="exact"):
            ctx.violate(f"C17/subgraph-changes-source/{cls}", "source changed by subgraph (dangling fragment)", case)
            return


def _scale_cases(ctx, rng):
    """very long chains: traversal depth ~ n (recursion limits), n*n index arithmetic"""
    for k, n, cls, gseed in gen.scale_specs(ctx, rng):
        r2 = random.Random(gseed)
        ids = list(gen.scale_pg(random.Random(gseed), cls, n)["atoms"])
        subs = [["list", r2.sample(ids, len(ids) // 2)], ["set", ids[: len(ids) // 3]]]
        yield {"cls": cls, "scale": n, "gseed": gseed, "subsets": subs, "cover": ("components", "partition", "components")[k % 3], "pseed": gseed // 3, "pieces_as": "list"}


def _check_graph(ctx, got_g, want, cls, case, key, what):
    got = snap(got_g)
    diff = sem.pg_diff(want, got, mode="exact")
    if diff:
        part = diff[0].split(":")[0].split("[")[0].split(" of ")[0].replace(" ", "-")
        ctx.violate(f"C17/{key}/{part}", f"{what}: {'; '.join(diff[:2])}", case)
        return False
    if type(got_g).__name__ != cls:
        ctx.violate(f"C17/{key}/class-changed", f"{what} is a {type(got_g).__name__}", case)
        return False
    for inv, text in model.coherence(got_g, tuple(want["atoms"])[:4]):
        ctx.violate(f"C17/{key}/incoherent-{inv}", f"{what}: {text}", case)
        return False
    return True


def check_case(ctx, case):
    cls = case["cls"]
    if "scale" in case:
        pg = gen.scale_pg(random.Random(case["gseed"]), cls, case["scale"])
        ctx.count("scale_cases")
        ctx.count(f"scale:{case['scale']}")
    else:
        pg = pg_from_json(case["pg"])
    rng = random.Random(case["pseed"])
    try:
        g, via = build_case(pg, case["pseed"])
    except DerivationWrong as e:
        ctx.violate(f"C17/derived-input-differs/{cls}/{e.via}", f"deriving the input graph: {e}", case)
        ctx.case()
        return
    ctx.count(f"via:{via}")
    if "dangling" in case:
        _check_dangling(ctx, case, pg, g, cls)
        return
    src = snap(g)
    Cls = classes()[cls]
    descs = list(pg["astereo"].values()) + list(pg["bstereo"].values())
    chg = [d for v in list(pg["achange"].values()) + list(pg["bchange"].values()) for d in v.values()]
    if any(None in d[1] for d in descs + chg):
        ctx.count("with_placeholder")
    # ---- subgraph
    for kind, S in case["subsets"]:
        Sset = set(S)
        want = sem.pg_subgraph(src, Sset)
        cut_b = any(len(b & Sset) == 1 for b in pg["bonds"])
        cut_d = any(0 < sum(x in Sset for x in sem.desc_atoms(d)) < len(sem.desc_atoms(d)) for d in descs)
        cut_c = any(0 < sum(x in Sset for x in sem.desc_atoms(d)) < len(sem.desc_atoms(d)) for d in chg)
        ctx.case((sem.canon_key(pg), len(Sset), kind), 0 < len(Sset) < len(pg["atoms"]) and (cut_b or cut_d or cut_c))
        ctx.count("subgraphs")
        ctx.count(f"iterable:{kind}")
        if cut_d:
            ctx.count("cut_descriptor")
        if cut_c:
            ctx.count("cut_change")
        feat = "one-shot" if kind in ("generator", "iterator") else "collection"
        try:
            h = g.subgraph(as_iterable(kind, S))
        except Exception as e:  # noqa: BLE001
            ctx.violate(f"C17/subgraph-raises:{type(e).__name__}/{cls}/{feat}", f"subgraph({kind} of {len(S)} atoms) raised {e!r}", case)
            continue
        _check_graph(ctx, h, want, cls, case, f"subgraph/{cls}/{feat}", f"subgraph({kind} {sorted(S, key=repr)[:6]})")
        d0 = sem.pg_diff(src, snap(g), mode="exact")
        if d0:
            ctx.violate(f"C17/subgraph-changes-source/{cls}", f"source changed by subgraph: {d0[0]}", case)
            return
    # ---- components
    ctx.count("component_checks")
    ref = sem.pg_components(src)
    try:
        comps = [frozenset(c) for c in g.connected_components()]
    except Exception as e:  # noqa: BLE001
        ctx.violate(f"C17/components-raise:{type(e).__name__}/{cls}", f"connected_components raised {e!r}", case)
        return
    if len(comps) != len(ref) or set(comps) != set(ref):
        ctx.violate(f"C17/components-wrong/{cls}", f"components {[sorted(c, key=repr) for c in comps]} vs union-find {[sorted(c, key=repr) for c in ref]}", case)
    for a in list(pg["atoms"])[:4]:
        c = frozenset(g.node_connected_component(a))
        if c != next(r for r in ref if a in r):
            ctx.violate(f"C17/node-component-wrong/{cls}", f"node_connected_component({a}) = {sorted(c, key=repr)}", case)
    # ---- compose
    ids = list(pg["atoms"])
    cover = case["cover"]
    if cover == "components":
        parts = [sorted(c, key=repr) for c in ref]
    elif cover == "partition":
        rng.shuffle(ids)
        k = rng.randint(1, max(1, min(4, len(ids))))
        parts = [ids[j::k] for j in range(k)]
    else:
        parts = [rng.sample(ids, rng.randint(1, len(ids))) for _ in range(rng.randint(2, 3))]
    ctx.count(f"cover:{cover}")
    try:
        pieces = [g.subgraph(list(p)) for p in parts]
    except Exception as e:  # noqa: BLE001
        ctx.violate(f"C17/subgraph-raises:{type(e).__name__}/{cls}/collection", f"subgraph raised {e!r}", case)
        return
    piece_pgs = [sem.pg_subgraph(src, set(p)) for p in parts]
    if cover == "overlap" and "scale" not in case and rng.random() < 0.6:
        # overlapping pieces that DISAGREE where they overlap (a fragment re-determined with another configuration, a
        # configuration forgotten or newly assigned, other attribute values): the later piece wins
        from ..snapshot import mk_desc

        edited = 0
        for k in range(len(pieces)):
            for key, setter in (("astereo", "set_atom_stereo"), ("bstereo", "set_bond_stereo")):
                for c, d in list(piece_pgs[k][key].items()):
                    if rng.random() < 0.5:
                        if sem.CHIRAL[d[0]]:
                            par = rng.choice([None, -d[2]]) if d[2] is not None else rng.choice([1, -1])
                        else:
                            par = None if d[2] is not None else 0
                        nd = (d[0], d[1], par)
                        getattr(pieces[k], setter)(mk_desc(nd))
                        piece_pgs[k][key][c] = nd
                        edited += 1
            for a in list(piece_pgs[k]["atoms"]):
                if rng.random() < 0.3:
                    pieces[k].set_atom_attribute(a, "label", k)
                    piece_pgs[k]["atoms"][a]["label"] = k
                    edited += 1
        if edited:
            ctx.count("conflicting_overlaps")
        bad = [k for k in range(len(pieces)) if sem.pg_diff(piece_pgs[k], snap(pieces[k]), mode="exact")]
        if bad:
            ctx.count("harness:edited-piece-differs")
            return
    # mixed-class compose: some pieces are handed over as instances of a base class of cls (a spectator molecule given
    # as a StereoMolGraph to StereoCondensedReactionGraph.compose, ...); they contribute what that class can hold
    bases = {"MolGraph": [], "StereoMolGraph": ["MolGraph"], "CondensedReactionGraph": ["MolGraph"], "StereoCondensedReactionGraph": ["StereoMolGraph", "CondensedReactionGraph", "MolGraph"]}[cls]
    downcast = False
    if bases and "scale" not in case and rng.random() < 0.35:
        for k in range(len(pieces)):
            if rng.random() < 0.5:
                B = rng.choice(bases)
                down = classes()[B](pieces[k])
                exp = sem.pg_copy(piece_pgs[k])
                exp["cls"] = B
                if not B.startswith("Stereo"):
                    exp["astereo"], exp["bstereo"] = {}, {}
                exp["achange"], exp["bchange"] = {}, {}
                if sem.pg_diff(exp, snap(down), mode="exact"):
                    ctx.count("harness:downcast-differs")  # copy-construction into a base class is not C17's subject
                    continue
                pieces[k], piece_pgs[k] = down, exp
                downcast = True
                ctx.count("mixed_class_pieces")
    if bases and "scale" not in case and not downcast and rng.random() < 0.4:
        # the other mixed-class direction: a BASE class composes pieces of this (derived) class - the result is a graph
        # of the base class holding what that class can hold
        B = rng.choice(bases)
        expB = sem.pg_union(piece_pgs, B)
        expB["cls"] = B
        if not B.startswith("Stereo"):
            expB["astereo"], expB["bstereo"] = {}, {}
        expB["achange"], expB["bchange"] = {}, {}
        ctx.count("base_class_compose_of_derived_pieces")
        try:
            compB = classes()[B].compose(list(pieces))
            if type(compB).__name__ != B:
                ctx.violate(f"C17/compose/{B}/of-{cls}-pieces/class", f"{B}.compose of {len(pieces)} {cls} piece(s) returned a {type(compB).__name__}", case)
            else:
                _check_graph(ctx, compB, expB, B, case, f"compose/{B}/of-{cls}-pieces/{cover}", f"{B}.compose of {len(parts)} {cls} pieces")
        except Exception as e:  # noqa: BLE001
            ctx.violate(f"C17/compose-raises:{type(e).__name__}/{B}/of-{cls}-pieces", f"{B}.compose of {cls} pieces raised {e!r}", case)
    want = sem.pg_union(piece_pgs, cls)
    ctx.case((sem.canon_key(pg), cover, len(parts)), len(parts) >= 2)
    ctx.count("composes")
    seq = {"list": list, "tuple": tuple, "generator": lambda p_: (x for x in p_), "iterator": iter}[case["pieces_as"]](pieces)
    ctx.count(f"pieces_as:{case['pieces_as']}")
    try:
        comp = Cls.compose(seq)
    except Exception as e:  # noqa: BLE001
        ctx.violate(f"C17/compose-raises:{type(e).__name__}/{cls}/{cover}", f"compose of {len(parts)} pieces raised {e!r}", case)
        return
    ok = _check_graph(ctx, comp, want, cls, case, f"compose/{cls}/{cover}", f"compose of {len(parts)} {cover} pieces")
    if cover == "components" and ok and not downcast:
        ctx.count("recompose_components")
        d1 = sem.pg_diff(src, snap(comp), mode="exact")
        if d1:
            ctx.violate(f"C17/recompose-components/{cls}/{d1[0].split(':')[0].split('[')[0].split(' of ')[0].replace(' ', '-')}", f"composing the component subgraphs does not reproduce the graph: {'; '.join(d1[:2])}", case)
        elif all(d[2] is not None for d in descs + chg):
            try:
                if not (comp == g):
                    ctx.violate(f"C17/recompose-components/{cls}/not-equal", "compose(component subgraphs) != g", case)
            except Exception as e:  # noqa: BLE001
                ctx.violate(f"C17/recompose-components/{cls}/eq-raises:{type(e).__name__}", f"== raised {e!r}", case)
    ctx.sample({"class": cls, "graph": case.get("pg", f"scale chain n={case.get('scale')}"), "subsets": [[k_, list(S_)[:8]] for k_, S_ in case["subsets"][:2]], "cover": cover, "parts": [list(p)[:6] for p in parts][:3]})
