"""C08 - reaction graphs decompose and reverse faithfully."""
from __future__ import annotations

import random

from .. import gen, sem
from ..snapshot import DerivationWrong, build, build_case, classes, pg_from_json, pg_to_json, snap

LEVEL = "exploration"
RULE = (
    "triples (reactant, product, optional TS) over a common atom set (2-9 atoms, arbitrary ids): random bond sets with "
    "arbitrary differences, TS = R u P plus extra bonds; descriptors generated per structure from that structure's own "
    "neighbours so that at every atom / bond the three may be absent, equal, a symmetry-equivalent re-expression, of other "
    "parity or of another class; MolGraph inputs for CondensedReactionGraph, StereoMolGraph inputs for the stereo class; "
    "fully specified parities. Oracle on snapshots: reactant()/product() == inputs (atoms, elements, bonds exactly; "
    "descriptors equivalent on the same keys, none extra); formed = P\\R, broken = R\\P, fleeting = TS\\(R u P); "
    "reverse_reaction swaps reactant and product incl. stereo, keeps fleeting bonds and fleeting stereo; reversing twice "
    "restores every view. Non-trivial: R != P in bonds or stereo, or TS adds a fleeting bond/descriptor; distinct by (class, "
    "sizes of the bond differences, per-slot absent/equal/different pattern)."
)
ASSUMPTIONS = ["inputs are stereo-valid per structure; reference decomposition / reversal on plain data (sem.pg_reactant, sem.pg_reverse)"]
ANCHORS = [
    "stereomolgraph.graphs.crg:CondensedReactionGraph.from_graphs",
    "stereomolgraph.graphs.scrg:StereoCondensedReactionGraph.from_graphs",
    "stereomolgraph.graphs.crg:CondensedReactionGraph.reactant",
    "stereomolgraph.graphs.crg:CondensedReactionGraph.product",
    "stereomolgraph.graphs.scrg:StereoCondensedReactionGraph.reactant",
    "stereomolgraph.graphs.scrg:StereoCondensedReactionGraph.product",
    "stereomolgraph.graphs.scrg:StereoCondensedReactionGraph._ts",
    "stereomolgraph.graphs.crg:CondensedReactionGraph.reverse_reaction",
    "stereomolgraph.graphs.scrg:StereoCondensedReactionGraph.reverse_reaction",
    "stereomolgraph.graphs.scrg:StereoCondensedReactionGraph.from_graphs#scrg.set_atom_stereo(ts_stereo)",
    "stereomolgraph.graphs.scrg:StereoCondensedReactionGraph.from_graphs#fleeting=ts_stereo",
    "stereomolgraph.graphs.scrg:StereoCondensedReactionGraph.from_graphs#scrg.set_atom_stereo(r_stereo)",
    "stereomolgraph.graphs.scrg:StereoCondensedReactionGraph.from_graphs#scrg.set_atom_stereo_change(formed=p_stereo)",
    "stereomolgraph.graphs.scrg:StereoCondensedReactionGraph.from_graphs#scrg.set_atom_stereo_change(broken=r_stereo)",
    "stereomolgraph.graphs.scrg:StereoCondensedReactionGraph.from_graphs#scrg.set_atom_stereo_change(formed=p_stereo, broken=r_stereo)",
    "stereomolgraph.graphs.scrg:StereoCondensedReactionGraph.from_graphs#scrg.set_bond_stereo(r_stereo)",
    "stereomolgraph.graphs.scrg:StereoCondensedReactionGraph.from_graphs#scrg.set_bond_stereo_change(formed=p_stereo)",
    "stereomolgraph.graphs.scrg:StereoCondensedReactionGraph.from_graphs#scrg.set_bond_stereo_change(broken=r_stereo)",
    "stereomolgraph.graphs.scrg:StereoCondensedReactionGraph.from_graphs#scrg.set_bond_stereo_change(formed=p_stereo, broken=r_stereo)",
]
REQUIRED_ANCHORS = ANCHORS
REQUIRED = ["triples", "with_ts", "without_ts", "reversals", "double_reversals", "fleeting_bonds", "fleeting_stereo", "ts_only_descriptors", "scale_cases", "numpy_id_descriptors", "inputs_with_outlived_bond_descriptor"]


def _bonds(rng, ids, max_deg=4, p=0.35):
    deg = {a: 0 for a in ids}
    out = set()
    pairs = [(a, b) for i, a in enumerate(ids) for b in ids[i + 1:]]
    rng.shuffle(pairs)
    for a, b in pairs:
        if rng.random() < p and deg[a] < max_deg and deg[b] < max_deg:
            out.add(frozenset((a, b)))
            deg[a] += 1
            deg[b] += 1
    return out


def _struct(cls, atoms, bonds):
    g = sem.pg_empty(cls)
    g["atoms"] = {a: dict(v) for a, v in atoms.items()}
    g["bonds"] = {b: {} for b in bonds}
    return g


def _big_triple(rng, cls, n):
    """reactant = very long chain (gen.scale_pg); product: two backbone bonds broken, two bonds formed between distant
    atoms, one centre inverted, one descriptor gone; TS: all of these bonds plus one contact of its own"""
    r = gen.scale_pg(rng, cls, n)
    busy = {x for d in list(r["astereo"].values()) + list(r["bstereo"].values()) for x in d[1] if x is not None}  # (bond descriptors too: a broken backbone bond must not carry one)
    nb = sem.pg_neighbors(r)
    p = sem.pg_copy(r)
    free_bonds = [b for b in sorted(r["bonds"], key=sorted) if not (b & busy)]
    for b in rng.sample(free_bonds, 2):
        del p["bonds"][b]
    free_atoms = [a for a in sorted(r["atoms"]) if a not in busy and len(nb[a]) <= 2]
    added = []
    while len(added) < 3:
        x, y = rng.sample(free_atoms, 2)
        if frozenset((x, y)) not in r["bonds"] and frozenset((x, y)) not in added:
            added.append(frozenset((x, y)))
    for b in added[:2]:
        p["bonds"][b] = {}
    t = sem.pg_copy(r)
    for b in added:
        t["bonds"][b] = {}
    if cls == "StereoMolGraph" and r["astereo"]:
        cs = sorted(r["astereo"])
        p["astereo"][cs[0]] = sem.desc_invert(r["astereo"][cs[0]])
        if len(cs) > 1:
            del p["astereo"][cs[1]]
            del t["astereo"][cs[1]]
    return r, p, t


def gen_cases(ctx):
    rng = ctx.rng
    for k, nsz, cls4, seed in gen.scale_specs(ctx, rng, reps=1):
        yield {"stereo": cls4.startswith("Stereo"), "scale": nsz, "gseed": seed, "with_ts": k % 3 != 0, "bseed": seed // 3}
    n = ctx.n(6000, 120000)
    for i in range(n):
        stereo = i % 4 != 0
        cls = "StereoMolGraph" if stereo else "MolGraph"
        na = rng.randint(2, 9)
        ids = gen.make_ids(rng, na)
        atoms = {a: {"atom_type": rng.choice(gen.SMALL)} for a in ids}
        md = rng.choice([3, 4, 4, 5, 6])
        R = _bonds(rng, ids, md, rng.choice([0.25, 0.4]))
        how = rng.random()
        if how < 0.2:
            P = set(R)
        elif how < 0.7:
            P = set(R)
            for _ in range(rng.randint(1, 3)):
                if P and rng.random() < 0.5:
                    P.discard(rng.choice(sorted(P, key=sorted)))
                else:
                    a, b = rng.sample(ids, 2)
                    P.add(frozenset((a, b)))
        else:
            P = _bonds(rng, ids, md, 0.35)
        with_ts = rng.random() < 0.6
        T = set(R | P)
        if with_ts and rng.random() < 0.6 and na > 2:
            for _ in range(rng.randint(1, 2)):
                a, b = rng.sample(ids, 2)
                T.add(frozenset((a, b)))
        r, p, t = _struct(cls, atoms, R), _struct(cls, atoms, P), _struct(cls, atoms, T)
        if stereo:
            for g in (r, p, t):
                gen.decorate(rng, g, p_stereo=0.8, p_none=0.0, one_sided=0.2)
            # make "equal" and "re-expressed" descriptors frequent where the environment allows it
            nr, np_, nt = sem.pg_neighbors(r), sem.pg_neighbors(p), sem.pg_neighbors(t)
            for a in ids:
                if a in r["astereo"] and nr[a] == np_[a] and rng.random() < 0.5:
                    p["astereo"][a] = sem.rewrite_desc(r["astereo"][a], rng)
                if a in r["astereo"] and nr[a] == nt[a] and rng.random() < 0.4:
                    t["astereo"][a] = sem.rewrite_desc(r["astereo"][a], rng)
                elif a in p["astereo"] and np_[a] == nt[a] and rng.random() < 0.3:
                    t["astereo"][a] = sem.rewrite_desc(p["astereo"][a], rng)
            for b in R & P:
                x, y = tuple(b)
                if b in r["bstereo"] and nr[x] == np_[x] and nr[y] == np_[y] and rng.random() < 0.5:
                    p["bstereo"][b] = sem.rewrite_desc(r["bstereo"][b], rng)
        yield {"stereo": stereo, "r": pg_to_json(r), "p": pg_to_json(p), "ts": pg_to_json(t) if with_ts else None, "bseed": rng.randrange(1 << 30)}


def _cmp(ctx, want, got_graph, key, what, case):
    got = snap(got_graph)
    d = sem.pg_diff(want, got, mode="equiv", attrs=False)
    if d:
        part = d[0].split(":")[0].split("[")[0].split(" of ")[0].replace(" ", "-")
        ctx.violate(f"C08/{key}/{part}", f"{what}: {'; '.join(d[:2])}", case)
        return False
    return True


def check_case(ctx, case):
    C = classes()
    stereo = case["stereo"]
    cls = "StereoCondensedReactionGraph" if stereo else "CondensedReactionGraph"
    if "scale" in case:
        ctx.count("scale_cases")
        r, p, t = _big_triple(random.Random(case["gseed"]), "StereoMolGraph" if stereo else "MolGraph", case["scale"])
        t = t if case["with_ts"] else None
    else:
        r, p = pg_from_json(case["r"]), pg_from_json(case["p"])
        t = pg_from_json(case["ts"]) if case["ts"] else None
    brng = random.Random(case["bseed"])
    try:  # reactant, product and TS reach from_graphs through independent, seed-chosen provenances (different internal orders)
        if stereo and "scale" not in case and case["bseed"] % 7 == 0:
            # descriptors whose ligand order was computed with numpy: the ids inside them are np.int64 scalars
            gr, gp = build(r, rng=brng, numpy_parity="ids"), build(p, rng=brng, numpy_parity="ids")
            gt = build(t, rng=brng, numpy_parity="ids") if t else None
            via = "direct"
            ctx.count("numpy_id_descriptors")
        else:
            gr, via = build_case(r, case["bseed"])
            gp, _ = build_case(p, case["bseed"] // 15)
            gt = build_case(t, case["bseed"] // 225)[0] if t else None
    except DerivationWrong as e:
        ctx.violate(f"C08/derived-input-differs/{cls}/{e.via}", f"deriving an input graph: {e}", case)
        ctx.case()
        return
    ctx.count(f"via:{via}")
    if stereo and "scale" not in case and case["bseed"] % 5 == 1:
        # an input graph in which a bond descriptor has outlived its bond (remove_bond keeps descriptors): the graph given
        # to from_graphs then has neither that bond nor - as far as the reaction is concerned - that descriptor
        for gx, x in ((gr, r), (gp, p)):
            cand = sorted((b for b in x["bstereo"] if b in x["bonds"] and not any(e in x["astereo"] for e in b)), key=lambda b: sorted(map(repr, b)))
            if cand and brng.random() < 0.7:
                b = brng.choice(cand)
                gx.remove_bond(*tuple(b))
                del x["bonds"][b]
                del x["bstereo"][b]
                ctx.count("inputs_with_outlived_bond_descriptor")
    R, P = set(r["bonds"]), set(p["bonds"])
    T = set(t["bonds"]) if t else R | P
    differs = R != P or bool(sem.pg_diff(r, p, mode="equiv", attrs=False)) or bool(T - (R | P)) or bool(t and (t["astereo"] or t["bstereo"]))
    pat = (len(P - R), len(R - P), len(T - (R | P)), tuple(sorted((int(a in r["astereo"]), int(a in p["astereo"]), int(bool(t) and a in t["astereo"])) for a in r["atoms"]))[:6])
    ctx.case((cls, pat, len(r["atoms"])), differs)
    ctx.count("triples")
    ctx.count("with_ts" if t else "without_ts")
    tkey = "with-ts" if t else "no-ts"
    before = [snap(g) for g in (gr, gp)] + ([snap(gt)] if gt else [])
    try:
        rg = C[cls].from_graphs(gr, gp, gt) if gt is not None else C[cls].from_graphs(gr, gp)
    except Exception as e:  # noqa: BLE001
        ctx.violate(f"C08/from_graphs-raises:{type(e).__name__}/{cls}/{tkey}", f"from_graphs raised {e!r}", case)
        return
    after = [snap(g) for g in (gr, gp)] + ([snap(gt)] if gt else [])
    if any(sem.pg_diff(a, b, mode="exact") for a, b in zip(before, after)):
        ctx.count("diag:from_graphs_modified_an_input")
    # roles
    try:
        got = {"formed": set(rg.get_formed_bonds()), "broken": set(rg.get_broken_bonds()), "fleeting": set(rg.get_fleeting_bonds())}
    except Exception as e:  # noqa: BLE001
        ctx.violate(f"C08/role-getters-raise:{type(e).__name__}/{cls}", f"{e!r}", case)
        return
    want = {"formed": P - R, "broken": R - P, "fleeting": T - (R | P)}
    if want["fleeting"]:
        ctx.count("fleeting_bonds")
    for k in want:
        if got[k] != want[k]:
            ctx.violate(f"C08/roles/{cls}/{k}/{tkey}", f"{k} bonds {sorted(map(sorted, got[k]))} but expected {sorted(map(sorted, want[k]))}", case)
            return
    if set(rg.bonds) != T:
        ctx.violate(f"C08/roles/{cls}/all-bonds/{tkey}", f"bonds {sorted(map(sorted, rg.bonds))} != TS bonds {sorted(map(sorted, T))}", case)
        return
    # decomposition
    try:
        rr, pp = rg.reactant(), rg.product()
    except Exception as e:  # noqa: BLE001
        ctx.violate(f"C08/reactant-or-product-raises:{type(e).__name__}/{cls}/{tkey}", f"{e!r}", case)
        return
    ok = _cmp(ctx, r, rr, f"reactant/{cls}/{tkey}", "reactant() differs from the reactant given to from_graphs", case)
    ok = _cmp(ctx, p, pp, f"product/{cls}/{tkey}", "product() differs from the product given to from_graphs", case) and ok
    if not ok:
        return
    # the same decomposition without attributes (keep_attributes=False): same atoms, elements, bonds and stereo
    try:
        ok = _cmp(ctx, r, rg.reactant(keep_attributes=False), f"reactant/{cls}/{tkey}/keep_attributes=False", "reactant(keep_attributes=False) differs from the reactant given to from_graphs", case)
        ok = _cmp(ctx, p, rg.product(keep_attributes=False), f"product/{cls}/{tkey}/keep_attributes=False", "product(keep_attributes=False) differs from the product given to from_graphs", case) and ok
        ctx.count("decompositions_without_attributes")
    except Exception as e:  # noqa: BLE001
        ctx.violate(f"C08/reactant-or-product-raises:{type(e).__name__}/{cls}/{tkey}/keep_attributes=False", f"{e!r}", case)
        return
    if not ok:
        return
    # reversal
    S = snap(rg)
    # fleeting stereo: a transition-state descriptor that differs from both the reactant's and the
    # product's descriptor of that atom must be carried by the reaction graph (as its fleeting stereo)
    if t is not None:
        for a, td in t["astereo"].items():
            rd, pd = r["astereo"].get(a), p["astereo"].get(a)
            if (rd is None or not sem.desc_equiv(td, rd)) and (pd is None or not sem.desc_equiv(td, pd)):
                ctx.count("ts_only_descriptors")
                got_d = S["achange"].get(a, {}).get("FLEETING")
                if got_d is None or not sem.desc_equiv(td, got_d):
                    ctx.violate(f"C08/fleeting-stereo-lost/{cls}/{'reactant-equals-product' if (rd is not None and pd is not None and sem.desc_equiv(rd, pd)) else 'reactant-differs-from-product'}", f"atom {a}: transition-state descriptor {td} (reactant {rd}, product {pd}) is not recorded as fleeting stereo: {S['achange'].get(a)}", case)
                    return
    if S["achange"] or S["bchange"]:
        if any("FLEETING" in v for v in list(S["achange"].values()) + list(S["bchange"].values())):
            ctx.count("fleeting_stereo")
    try:
        rev = rg.reverse_reaction()
    except Exception as e:  # noqa: BLE001
        ctx.violate(f"C08/reverse-raises:{type(e).__name__}/{cls}/{tkey}", f"reverse_reaction raised {e!r}", case)
        return
    ctx.count("reversals")
    if sem.pg_diff(S, snap(rg), mode="exact"):
        ctx.violate(f"C08/reverse-modifies-original/{cls}", "reverse_reaction changed the graph it was called on", case)
    wantrev = sem.pg_reverse(S)
    wantrev["achange"] = {k: v for k, v in wantrev["achange"].items() if v}
    wantrev["bchange"] = {k: v for k, v in wantrev["bchange"].items() if v}
    d = sem.pg_diff(wantrev, _drop_empty(snap(rev)), mode="same", attrs=False)
    if d:
        part = d[0].split(":")[0].split("[")[0].split(" of ")[0].replace(" ", "-")
        ctx.violate(f"C08/reverse/{cls}/{part}/{tkey}", f"reverse_reaction: {'; '.join(d[:2])}", case)
        return
    try:
        ok = _cmp(ctx, p, rev.reactant(), f"reverse-reactant/{cls}/{tkey}", "reverse_reaction().reactant() differs from the product", case)
        ok = _cmp(ctx, r, rev.product(), f"reverse-product/{cls}/{tkey}", "reverse_reaction().product() differs from the reactant", case) and ok
        rev2 = rev.reverse_reaction()
    except Exception as e:  # noqa: BLE001
        ctx.violate(f"C08/reverse-followup-raises:{type(e).__name__}/{cls}/{tkey}", f"{e!r}", case)
        return
    ctx.count("double_reversals")
    d = sem.pg_diff(_drop_empty(S), _drop_empty(snap(rev2)), mode="same", attrs=True)
    if d:
        part = d[0].split(":")[0].split("[")[0].split(" of ")[0].replace(" ", "-")
        ctx.violate(f"C08/double-reverse/{cls}/{part}/{tkey}", f"reversing twice: {'; '.join(d[:2])}", case)
    else:
        try:
            if not (rev2 == rg) or hash(rev2) != hash(rg):
                ctx.violate(f"C08/double-reverse/{cls}/not-equal/{tkey}", "reverse_reaction().reverse_reaction() has identical views but == / hash disagree with the original", case)
            ctx.count("eq_hash_after_double_reversal")
        except Exception as e:  # noqa: BLE001
            ctx.violate(f"C08/double-reverse/{cls}/eq-raises:{type(e).__name__}/{tkey}", f"== / hash raised {e!r}", case)
    ctx.sample({"class": cls, "r": case.get("r", f"chain of {case.get('scale')} atoms"), "p": case.get("p"), "ts": case.get("ts"), "formed": sorted(map(sorted, want["formed"])), "broken": sorted(map(sorted, want["broken"])), "fleeting": sorted(map(sorted, want["fleeting"]))})


def _drop_empty(S):
    S = dict(S)
    S["achange"] = {k: v for k, v in S["achange"].items() if v}
    S["bchange"] = {k: v for k, v in S["bchange"].items() if v}
    return S
