"""C16 - the hash separates elementary differences used for de-duplication."""
from __future__ import annotations

import random
from collections import Counter

from .. import gen, sem
from ..snapshot import DerivationWrong, build, build_case, pg_from_json, pg_to_json

LEVEL = "exploration"
RULE = (
    "three constructed families in which inequality is certain: (i) MolGraph/StereoMolGraph pairs whose multisets of "
    "(element, sorted neighbour elements) differ (one-element change, rewiring, independent graphs); (ii) the two "
    "stereoisomers of a graph with exactly one differing stereogenic unit - a Tetrahedral centre with four "
    "element-distinct neighbours or a PlanarBond with element-distinct substituents on each end - inside random "
    "surrounding structure (trees, rings, 4-24 atoms); (iii) reaction-graph pairs (both reaction classes) whose "
    "reactants, products or TS structures differ in that multiset, incl. reaction vs reverse. Verdict: real hashes "
    "differ. Non-trivial: same class and size; distinct by (family, class, invariants of both graphs)."
)
ASSUMPTIONS = ["an accidental 64-bit collision (p~5e-20 per pair) is treated as a violation, as the property instructs"]
ANCHORS = [
    "stereomolgraph.algorithms.color_refine:morgan_generator",
    "stereomolgraph.algorithms.color_refine:stereo_morgan_generator",
    "stereomolgraph.algorithms.color_refine:_reaction_generator",
    "stereomolgraph.algorithms.color_refine:_color_refine",
    "stereomolgraph.experimental:generate_stereoisomers",
]
REQUIRED_ANCHORS = ANCHORS
REQUIRED = ["family_i", "family_ii_tetrahedral", "family_ii_planar", "family_iii", "reverse_pairs", "family_iii_only_ts_differs"]


def signature(pg):
    nb = sem.pg_neighbors(pg)
    z = lambda a: pg["atoms"][a]["atom_type"]
    return Counter((z(a), tuple(sorted(z(n) for n in nb[a]))) for a in pg["atoms"])


def shadow_signature(pg):
    """signature as the stereo colour refinement sees it: an atom that carries an atom-centred
    descriptor is coloured from the descriptor's ligands, not from its bonds"""
    nb = sem.pg_neighbors(pg)
    z = lambda a: pg["atoms"][a]["atom_type"]
    out = Counter()
    for a in pg["atoms"]:
        d = pg["astereo"].get(a)
        lig = [x for x in d[1][1:] if x is not None] if (d and d[2] is not None) else nb[a]
        out[(z(a), tuple(sorted(z(n) for n in lig)))] += 1
    return out


def _one_unit(rng, n_range):
    """graph with one stereogenic unit; returns (pg, pg_other_isomer, kind)"""
    for _ in range(50):
        pg = gen.random_pg(rng, "StereoMolGraph", n_range=n_range, alphabet=gen.SMALL, p_stereo=0.0, max_deg=4, allow_isolated=rng.random() < 0.2, id_kind=None)
        nb = sem.pg_neighbors(pg)
        if rng.random() < 0.5:
            cands = [a for a in pg["atoms"] if len(nb[a]) == 4]
            if not cands:
                continue
            c = rng.choice(cands)
            els = rng.sample([1, 9, 17, 35, 53, 8, 7, 16, 6, 15], 4)
            for x, e in zip(sorted(nb[c], key=repr), els):
                pg["atoms"][x]["atom_type"] = e
            lig = list(nb[c])
            rng.shuffle(lig)
            d = ("Tetrahedral", (c, *lig), rng.choice((1, -1)))
            pg["astereo"][c] = d
            other = sem.pg_copy(pg)
            other["astereo"][c] = sem.desc_invert(d)
            kind = "tetrahedral"
        else:
            cands = [b for b in pg["bonds"] if all(len(nb[x] - b) == 2 for x in b)]
            if not cands:
                continue
            b = rng.choice(sorted(cands, key=sorted))
            x, y = tuple(b)
            for end in (x, y):
                subs = sorted(nb[end] - b, key=repr)
                e1, e2 = rng.sample([1, 9, 17, 35, 53, 8, 7, 16, 6, 15], 2)
                # a substituent shared by both ends (small ring) keeps the last assignment; re-check below
                pg["atoms"][subs[0]]["atom_type"] = e1
                pg["atoms"][subs[1]]["atom_type"] = e2
            z = lambda a: pg["atoms"][a]["atom_type"]
            sx, sy = sorted(nb[x] - b, key=repr), sorted(nb[y] - b, key=repr)
            if z(sx[0]) == z(sx[1]) or z(sy[0]) == z(sy[1]):
                continue
            rng.shuffle(sx)
            rng.shuffle(sy)
            d = ("PlanarBond", (sx[0], sx[1], x, y, sy[0], sy[1]), 0)
            pg["bstereo"][b] = d
            other = sem.pg_copy(pg)
            other["bstereo"][b] = ("PlanarBond", (sx[1], sx[0], x, y, sy[0], sy[1]), 0)
            kind = "planar"
        # other atoms: unspecified-parity descriptors at random (identical in both isomers)
        for a in pg["atoms"]:
            if a not in pg["astereo"] and len(nb[a]) == 4 and rng.random() < 0.3:
                dd = ("Tetrahedral", (a, *sorted(nb[a], key=repr)), None)
                pg["astereo"][a] = dd
                other["astereo"][a] = dd
        return pg, other, kind
    return None


def gen_cases(ctx):
    rng = ctx.rng
    n = ctx.n(12000, 400000)
    big = (5, 12) if ctx.tier == "quick" else (5, 24)
    for i in range(n):
        fam = i % 3
        if fam == 0:
            cls = rng.choice(["MolGraph", "StereoMolGraph"])
            a = gen.random_pg(rng, cls, n_range=(2, 10), alphabet=rng.choice([gen.TINY, gen.SMALL, gen.WIDE]), p_stereo=0.4)
            how = rng.random()
            if (i // 3) % 10 == 2:
                # bare rings (4-8 atoms, two or three elements) in two cyclic arrangements of the same element multiset,
                # e.g. the alternating S-N-S-N square and the S-S-N-N square: every atom has the same degree and, in
                # closed-neighbourhood terms, often the same surroundings
                r_ = rng.randint(4, 8)
                pool = rng.sample([6, 7, 8, 16, 15, 5, 14], rng.randint(2, 3))
                els_ = [pool[k % len(pool)] for k in range(r_)]
                ids_ = gen.make_ids(rng, r_)

                def ring(arr):
                    g_ = sem.pg_empty(cls)
                    for a_, z_ in zip(ids_, arr):
                        g_["atoms"][a_] = {"atom_type": z_}
                    for k in range(r_):
                        g_["bonds"][frozenset((ids_[k], ids_[(k + 1) % r_]))] = {}
                    return g_

                a1, a2 = els_[:], els_[:]
                rng.shuffle(a1)
                rng.shuffle(a2)
                a, b = ring(a1), ring(a2)
                b = sem.pg_relabel(b, gen.random_bijection(rng, b))
            elif (i // 3) % 10 == 7:  # ligand exchange between two centres of one element (coordination numbers 2..8, rarely 9)
                r = gen.ligand_exchange_pair(rng, cls, kmax=9 if (i // 30) % 8 == 0 else 8)
                if not r:
                    continue
                a, b = r
            elif how < 0.6:
                r = gen.mutate(rng, sem.pg_relabel(a, gen.random_bijection(rng, a)), rng.choice(["element", "element", "move_bond", "add_bond", "remove_bond"]))
                if not r:
                    continue
                b = r[1]
            elif how < 0.75:  # the same skeleton with the elements of two or three atoms exchanged
                if rng.random() < 0.6:
                    a = gen.random_pg(rng, cls, n_range=(3, 5), alphabet=gen.SMALL, p_stereo=0.0, allow_isolated=False)
                ids_ = list(a["atoms"])
                if len(ids_) < 2:
                    continue
                pick = rng.sample(ids_, min(len(ids_), rng.choice([2, 2, 3])))
                b = sem.pg_copy(a)
                for x, y in zip(pick, pick[1:] + pick[:1]):
                    b["atoms"][y]["atom_type"] = a["atoms"][x]["atom_type"]
            else:
                b = gen.random_pg(rng, cls, n_range=(len(a["atoms"]),) * 2, alphabet=gen.TINY, p_stereo=0.4, allow_isolated=False)
            if signature(a) == signature(b):
                continue
            yield {"fam": "i", "cls": cls, "a": pg_to_json(a), "b": pg_to_json(b), "bseed": rng.randrange(1 << 30)}
        elif fam == 1:
            r = _one_unit(rng, big if rng.random() < 0.5 else (5, 9))
            if not r:
                continue
            a, b, kind = r
            b = sem.pg_relabel(b, gen.random_bijection(rng, b)) if rng.random() < 0.5 else b
            yield {"fam": "ii", "cls": "StereoMolGraph", "unit": kind, "a": pg_to_json(a), "b": pg_to_json(b), "bseed": rng.randrange(1 << 30)}
        else:
            cls = rng.choice(["CondensedReactionGraph", "StereoCondensedReactionGraph"])
            a = gen.random_pg(rng, cls, n_range=(2, 10), alphabet=rng.choice([gen.TINY, gen.SMALL, gen.WIDE]), p_stereo=0.4, p_role=0.5)
            how = rng.random()
            if (i // 3) % 10 == 4:
                # degenerate exchange reactions: k copies of a diatomic A-B exchanging partners in cycles (a four-centre
                # exchange with spectators against a six-centre cyclic one ...): reactants and products are the same
                # molecules in both reactions, only the transition structures differ; no fleeting bonds
                k = rng.randint(3, 5)
                za, zb = rng.sample([1, 9, 17, 35, 8, 6, 7], 2)

                def exchange(cycles):
                    g = sem.pg_empty(cls)
                    for m_ in range(k):
                        g["atoms"][2 * m_] = {"atom_type": za}
                        g["atoms"][2 * m_ + 1] = {"atom_type": zb}
                    for cyc in cycles:
                        if len(cyc) == 1:
                            g["bonds"][frozenset((2 * cyc[0], 2 * cyc[0] + 1))] = {}
                            continue
                        for u, v in zip(cyc, cyc[1:] + cyc[:1]):
                            g["bonds"][frozenset((2 * u, 2 * u + 1))] = {"reaction": "BROKEN"}
                            g["bonds"][frozenset((2 * u, 2 * v + 1))] = {"reaction": "FORMED"}
                    return g

                def cycles_of(sizes):
                    mols = list(range(k))
                    rng.shuffle(mols)
                    out, p_ = [], 0
                    for sz in sizes:
                        out.append(mols[p_:p_ + sz])
                        p_ += sz
                    return out

                parts = [p_ for p_ in ([2] + [1] * (k - 2), [3] + [1] * (k - 3), [k], [2, 2] + [1] * (k - 4) if k >= 4 else None, [3, 2] if k == 5 else None) if p_]
                pa, pb = rng.sample(parts, 2)
                a, b, mut = exchange(cycles_of(pa)), exchange(cycles_of(pb)), "exchange-cycles"
                b = sem.pg_relabel(b, gen.random_bijection(rng, b))
            elif how < 0.35:
                b, mut = sem.pg_reverse(a), "reverse"
            else:
                r = gen.mutate(rng, sem.pg_relabel(a, gen.random_bijection(rng, a)), rng.choice(["role", "role", "element", "move_bond", "swap_roles"]))
                if not r:
                    continue
                mut, b = r
            diff = [w for w in ("reactant", "product", "ts") if signature(sem.pg_reactant(a, w)) != signature(sem.pg_reactant(b, w))]
            if not diff:
                continue
            if diff == ["ts"]:
                mut += "+only-ts-differs"
            yield {"fam": "iii", "cls": cls, "mut": mut, "diff": diff, "a": pg_to_json(a), "b": pg_to_json(b), "bseed": rng.randrange(1 << 30)}


def check_case(ctx, case):
    a, b = pg_from_json(case["a"]), pg_from_json(case["b"])
    brng = random.Random(case["bseed"])
    fam, cls = case["fam"], case["cls"]
    try:  # both graphs reach the hash through a seed-chosen provenance (direct build, subgraph, compose, relabel, removals, copies, JSON)
        ga, via_a = build_case(a, case["bseed"])
        gb, via_b = build_case(b, case["bseed"] // 15)
    except DerivationWrong as e:
        ctx.violate(f"C16/derived-input-differs/{cls}/{e.via}", f"deriving the input graph: {e}", case)
        ctx.case()
        return
    ctx.count(f"via:{via_a}")
    ctx.case((fam, sem.canon_key(a), sem.canon_key(b), case.get("unit"), case.get("mut")), len(a["atoms"]) == len(b["atoms"]))
    if fam == "i":
        ctx.count("family_i")
        sub = "signature"
        if cls == "StereoMolGraph" and shadow_signature(a) == shadow_signature(b):
            # the graphs only differ in bonds that no descriptor of their (descriptor-carrying) end atoms lists
            sub = "descriptor-shadowed-bonds"
            ctx.count("family_i_descriptor_shadowed")
    elif fam == "ii":
        ctx.count("family_ii_" + case["unit"])
        sub = case["unit"]
    else:
        ctx.count("family_iii")
        if case["diff"] == ["ts"]:
            ctx.count("family_iii_only_ts_differs")
        if case["mut"] in ("reverse", "swap_roles"):
            ctx.count("reverse_pairs")
        sub = "reverse" if case["mut"] in ("reverse", "swap_roles") else "+".join(case["diff"])
        if not (sem.pg_stereo_valid(a) and sem.pg_stereo_valid(b)):
            ctx.count("family_iii_stereo_invalid")
            if cls == "StereoCondensedReactionGraph" and all(shadow_signature(sem.pg_reactant(a, w)) == shadow_signature(sem.pg_reactant(b, w)) for w in ("reactant", "product", "ts")):
                # the only differing bonds join descriptor centres that still list each other as ligands
                sub = "descriptor-shadowed-bonds"
                ctx.count("family_iii_descriptor_shadowed")
    try:
        ha, hb = hash(ga), hash(gb)
    except Exception as e:  # noqa: BLE001
        ctx.violate(f"C16/hash-raises:{type(e).__name__}/{fam}/{cls}", f"hash raised {e!r}", case)
        return
    if ha == hb:
        ctx.violate(f"C16/collision/{fam}/{cls}/{sub}", f"hash(a) == hash(b) == {ha} for two {cls} graphs of family ({fam}) [{sub}] with {len(a['atoms'])} atoms", case)
    if fam == "ii" and brng.random() < 0.2:
        # end-to-end diagnostic: what a collision costs a user of generate_stereoisomers
        from stereomolgraph.experimental import generate_stereoisomers

        u = sem.pg_copy(a)
        for k, d in list(u["astereo"].items()):
            if d[2] is not None:
                u["astereo"][k] = (d[0], d[1], None)
        for k, d in list(u["bstereo"].items()):
            u["bstereo"][k] = (d[0], d[1], None)
        try:
            n_iso = len(list(generate_stereoisomers(build(u))))
            ctx.count("diag:generate_stereoisomers_calls")
            if n_iso != 2:
                ctx.count(f"diag:generate_stereoisomers_returned_{n_iso}_instead_of_2")
        except Exception:  # noqa: BLE001
            ctx.count("diag:generate_stereoisomers_raised")
    ctx.sample({"family": fam, "class": cls, "sub": sub, "a": case["a"], "b": case["b"], "hashes": [ha, hb]})
