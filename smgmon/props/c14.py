"""C14 - stereo from RDKit annotations agrees with stereo from 3D coordinates."""
from __future__ import annotations

import random

import numpy as np

from .. import geom, sem
from ..snapshot import build, snap
from . import c12

LEVEL = "exploration"
RULE = (
    "(a) every stereoisomer of ~45 organic skeletons (C,H,N,O,S,P,halogens; ring centres, adjacent centres, ring and "
    "conjugated double bonds, aromatics) embedded with ETKDG under varying seeds (optionally MMFF-relaxed): the graph "
    "imported from RDKit's annotations and the graph perceived from the XYZ block of the same conformer must have the same "
    "bonds and, after removing PlanarBond descriptors from all bonds that are not formal (non-aromatic) double bonds, "
    "compare equal under the real == and under the reference enumerator. Family (a1): every stereo element is expressible "
    "by both routes; family (a2): a tagged three-coordinate centre, a C=N / N=N double bond or a cumulene needs a "
    "placeholder (keyed separately). (b) single-centre square-planar / trigonal-bipyramidal / octahedral / tetrahedral "
    "complexes with pairwise distinct monoatomic ligands, every vertex assignment sampled, atoms and bonds of the RDKit "
    "molecule in random order, noisy coordinates under a random rigid motion or reflection: the label RDKit assigns from "
    "the 3D arrangement is imported and must give the same descriptor as direct perception. General-position filter as "
    "C07. Non-trivial: (a) >= 1 stereocentre or stereogenic double bond, (b) always; distinct by canonical isomeric "
    "SMILES x conformer seed resp. (class, vertex assignment, atom order)."
)
ASSUMPTIONS = ["RDKit ETKDG embedding, MMFF and AssignStereochemistryFrom3D are trusted; embeddings whose re-perceived RDKit stereo differs from the input isomer are skipped and counted", "general-position margins as C07"]
ANCHORS = [
    "stereomolgraph.rdmol2graph:RDMol2StereoMolGraph.smg_from_rdmol",
    "stereomolgraph.rdmol2graph:RDMol2StereoMolGraph.smg_from_rdmol#invert = {",
    "stereomolgraph.rdmol2graph:RDMol2StereoMolGraph.smg_from_rdmol#CHI_SQUAREPLANAR",
    "stereomolgraph.rdmol2graph:RDMol2StereoMolGraph.smg_from_rdmol#tbp_order = ",
    "stereomolgraph.rdmol2graph:RDMol2StereoMolGraph.smg_from_rdmol#order = self._oct_atom_order_permutation_dict",
    "stereomolgraph.xyz2graph:_tetrahedral_from_coords",
    "stereomolgraph.xyz2graph:_planar_bond_from_coords",
    "stereomolgraph.xyz2graph:_square_planar_from_coords",
    "stereomolgraph.xyz2graph:_trigonal_bipyramidal_from_coords",
    "stereomolgraph.xyz2graph:_octahedral_from_coords",
    "stereomolgraph.coords:handedness",
]
REQUIRED_ANCHORS = ANCHORS
REQUIRED = ["a1_molecules", "a2_molecules", "complexes", "complex:SquarePlanar", "complex:TrigonalBipyramidal", "complex:Octahedral", "complex:Tetrahedral", "tag:CW", "tag:CCW", "bond:Z", "bond:E", "molecules_over_256_atoms", "renumbered_before_embedding", "import:lone_pair_stereo=False"]
CASE_TIMEOUT = 180
A2 = ["CS(=O)CC", "CN=CC", "CC(=NO)C", "C(F)(Cl)=C=C(F)Cl", "CC=NN", "C[S+]([O-])CC", "CP(C)CC", "FN=NF", "CC(C)=NC", "CS(=O)c1ccccc1"]


def gen_cases(ctx):
    rng = ctx.rng
    nsk = 0
    big = ["C/C=C/" + "C" * 110, "C/C=C\\" + "C" * 110, "C" * 50 + "/C=C\\" + "C" * 60, "C[C@H](F)" + "C" * 100 + "/C=C\\C", "F/C=C/" + "C" * 50 + "/C=C\\" + "C" * 50 + "/C=C/Cl"]
    for j in range(ctx.n(64, 400)):
        yield {"kind": "mol", "smiles": big[(j + ctx.shard) % len(big)], "eseed": 2 * rng.randrange(1, 50000) + 1, "relax": False, "big": True}
    n = ctx.n(3200, 40000)
    for i in range(n):
        fam = i % 8
        if fam == 3:  # random molecule (rings 3..12, fused / spiro / bridged, several centres)
            from .. import molgen

            skel = molgen.random_smiles(rng, n_heavy=(4, 12), p_triple=0.0, bredt=True)
            iso = molgen.stereoisomers(skel, rng, max_isomers=4) if skel else []
            if not iso:
                continue
            yield {"kind": "mol", "smiles": iso[rng.randrange(len(iso))], "eseed": rng.randrange(1, 100000), "relax": rng.random() < 0.6, "random_molecule": True}
            continue
        if fam < 4:
            skel = c12.SKELETONS[(nsk * ctx.nshards + ctx.shard) % len(c12.SKELETONS)]
            nsk += 1
            iso = c12.isomers(skel)
            yield {"kind": "mol", "smiles": iso[rng.randrange(len(iso))], "eseed": rng.randrange(1, 100000), "relax": rng.random() < 0.4}
        elif fam == 4 and (i // 8) % 3 == 1:
            # bicyclic alkene whose double bond is the fusion bond of two rings of 4..11 atoms (one below, one above the
            # "small ring => cis" threshold): the unlabelled ring double bond is cis in the small ring
            skel = c12._fused_alkene(rng)
            iso = c12.isomers(skel)
            yield {"kind": "mol", "smiles": iso[rng.randrange(len(iso))], "eseed": rng.randrange(1, 100000), "relax": rng.random() < 0.5, "fused_alkene": True}
        elif fam == 4:
            skel = A2[(i // 8) % len(A2)]
            iso = c12.isomers(skel)
            yield {"kind": "mol", "smiles": iso[rng.randrange(len(iso))], "eseed": rng.randrange(1, 100000), "relax": rng.random() < 0.4}
        else:
            cls = ("SquarePlanar", "TrigonalBipyramidal", "Octahedral", "Tetrahedral")[(i // 8 + fam) % 4]
            yield {"kind": "complex", "cls": cls, "gseed": rng.randrange(1 << 30)}


def check_case(ctx, case):
    if case["kind"] == "complex":
        return _complex(ctx, case)
    return _mol(ctx, case)


def _classify(m):
    """'a1' if every stereo element is expressible by both routes, else the placeholder kind"""
    from rdkit import Chem

    out = set()
    for a in m.GetAtoms():
        if a.GetChiralTag() in (Chem.ChiralType.CHI_TETRAHEDRAL_CW, Chem.ChiralType.CHI_TETRAHEDRAL_CCW) and a.GetDegree() != 4:
            out.add("Tetrahedral")
        if a.GetDegree() == 2 and sum(1 for b in a.GetBonds() if b.GetBondType() == Chem.BondType.DOUBLE) == 2:
            out.add("PlanarBond")
    for b in m.GetBonds():
        if b.GetBondType() == Chem.BondType.DOUBLE and not b.GetIsAromatic():
            d1, d2 = b.GetBeginAtom().GetDegree(), b.GetEndAtom().GetDegree()
            if (d1 == 2 and d2 >= 2) or (d2 == 2 and d1 >= 2):
                out.add("PlanarBond")
    return out


def _strip(pg, keep):
    g = sem.pg_copy(pg)
    g["bstereo"] = {b: d for b, d in g["bstereo"].items() if b in keep}
    return g


def _mol(ctx, case):
    from rdkit import Chem
    from rdkit.Chem import AllChem
    from stereomolgraph.coords import Geometry
    from stereomolgraph.graphs.smg import StereoMolGraph

    m = Chem.AddHs(Chem.MolFromSmiles(case["smiles"]))
    if case["eseed"] % 2:
        # a random atom order (the statement quantifies over all atom orders): heavy atoms no longer come first, in
        # molecules with more than 256 atoms the stereo atoms get indices beyond CPython's small-int cache
        order = list(range(m.GetNumAtoms()))
        random.Random(case["eseed"]).shuffle(order)
        m = Chem.RenumberAtoms(m, order)
        ctx.count("renumbered_before_embedding")
    if m.GetNumAtoms() > 256:
        ctx.count("molecules_over_256_atoms")
    if c12._unspecified_stereo(m):
        # not one stereoisomer: RDKit itself still sees a potential stereo unit without a label (e.g. the interdependent
        # ring carbon / exocyclic double bond of CC=C1OC(F)(OOCl)O1, which the isomer enumeration does not resolve);
        # the annotation route then has nothing to agree with
        ctx.count("skipped:not-one-stereoisomer")
        return
    if AllChem.EmbedMolecule(m, randomSeed=case["eseed"], useRandomCoords=m.GetNumAtoms() > 150) != 0:
        ctx.count("skipped:embedding-failed")
        return
    if case["relax"]:
        try:
            AllChem.MMFFOptimizeMolecule(m, maxIters=200)
        except Exception:  # noqa: BLE001
            pass
    # guard: the conformer really has the stereo of the input isomer (RDKit self-consistency)
    chk = Chem.Mol(m)
    Chem.AssignStereochemistryFrom3D(chk)
    if Chem.MolToSmiles(chk) != Chem.MolToSmiles(m):
        ctx.count("skipped:embedding-has-other-stereo")
        return
    els = [a.GetAtomicNum() for a in m.GetAtoms()]
    X = np.array(m.GetConformer().GetPositions(), dtype=float)
    if not geom.general_position(els, X):
        ctx.count("filtered:not-general-position")
        return
    # input sanity (independent of the code under test): the conformer's distance contacts are the molecule's bonds
    from .c07 import _bondset

    if _bondset(els, X) != {frozenset((b.GetBeginAtomIdx(), b.GetEndAtomIdx())) for b in m.GetBonds()}:
        ctx.count("skipped:embedding-with-unphysical-contacts")
        return
    # input sanity: unrelaxed ETKDG conformers occasionally contain a flattened sp3 centre - one of its four
    # neighbours lies within 1 A (+ margin) of the plane of the other three (an ideal CH4 has 1.45 A). Such a conformer
    # is not a 3D shape of this molecule; when only SOME apexes are that close the library's planarity test moreover
    # depends on the atom order, which is the recorded C07 finding and not what C14 is about.
    for a in m.GetAtoms():
        if a.GetDegree() == 4 and a.GetHybridization() == Chem.HybridizationType.SP3:
            if min(geom.apex_distances(X, [n.GetIdx() for n in a.GetNeighbors()])) < 1.2:
                ctx.count("skipped:embedding-with-flattened-sp3-centre")
                return
    # input sanity: a three-coordinate end of a formal double bond lies in the plane of its neighbours (0 A); MMFF turns
    # some strained ones (halogenated cyclopropenes) into pyramids of 0.5 A, i.e. into sp3 centres
    for bnd in m.GetBonds():
        if bnd.GetBondType() == Chem.BondType.DOUBLE and not bnd.GetIsAromatic():
            for a in (bnd.GetBeginAtom(), bnd.GetEndAtom()):
                if a.GetDegree() == 3:
                    nbs = [n.GetIdx() for n in a.GetNeighbors()]
                    nrm = np.cross(X[nbs[1]] - X[nbs[0]], X[nbs[2]] - X[nbs[0]])
                    ln = np.linalg.norm(nrm)
                    if ln > 1e-9 and abs(np.dot(nrm / ln, X[a.GetIdx()] - X[nbs[0]])) > 0.25:
                        ctx.count("skipped:embedding-with-pyramidal-sp2-centre")
                        return
    # input sanity: a formal double bond is planar - its substituents on the two ends are eclipsed or anti (torsion 0 or
    # 180 degrees). Embeddings of strained medium-ring E-alkenes (the E isomer of a fusion double bond of two 8-11
    # membered rings) come out twisted by 15-40 degrees. The library calls six atoms planar when every atom is within
    # 1 A of the plane through any three others; with obtuse base triangles a twist of 20 degrees already exceeds that,
    # i.e. such a conformer sits on the planarity decision (thorough sweep, seed 5: C1CCCC/C2=C(/CCCC1)CCCCCCCC2 with
    # torsions 177 / 15 / 12 / 157 degrees is not perceived as a planar bond). Conformers twisted by more than 12
    # degrees are not inputs of C14 ("reasonable 3D geometry", general position as in C07).
    for bnd in m.GetBonds():
        if bnd.GetBondType() == Chem.BondType.DOUBLE and not bnd.GetIsAromatic():
            x_, y_ = bnd.GetBeginAtom(), bnd.GetEndAtom()
            for p_ in (n.GetIdx() for n in x_.GetNeighbors() if n.GetIdx() != y_.GetIdx()):
                for q_ in (n.GetIdx() for n in y_.GetNeighbors() if n.GetIdx() != x_.GetIdx()):
                    b1, b2, b3 = X[x_.GetIdx()] - X[p_], X[y_.GetIdx()] - X[x_.GetIdx()], X[q_] - X[y_.GetIdx()]
                    n1, n2 = np.cross(b1, b2), np.cross(b2, b3)
                    l1, l2 = np.linalg.norm(n1), np.linalg.norm(n2)
                    if l1 < 1e-6 or l2 < 1e-6:
                        continue
                    tors = np.degrees(np.arccos(np.clip(np.dot(n1, n2) / (l1 * l2), -1.0, 1.0)))
                    if min(tors, 180.0 - tors) > 12.0:
                        ctx.count("skipped:embedding-with-twisted-double-bond")
                        return
    ph = _classify(m)
    fam = "a1" if not ph else "a2"
    ctx.count(f"{fam}_molecules")
    for a in m.GetAtoms():
        if a.GetChiralTag() == Chem.ChiralType.CHI_TETRAHEDRAL_CW:
            ctx.count("tag:CW")
        if a.GetChiralTag() == Chem.ChiralType.CHI_TETRAHEDRAL_CCW:
            ctx.count("tag:CCW")
    for b in m.GetBonds():
        if b.GetStereo() == Chem.BondStereo.STEREOZ:
            ctx.count("bond:Z")
        if b.GetStereo() == Chem.BondStereo.STEREOE:
            ctx.count("bond:E")
    ctx.case((Chem.MolToSmiles(m), case["eseed"], case["relax"]), c12._n_stereo(m) >= 1)
    try:
        lp = True
        if (case["eseed"] // 2) % 3 == 0:
            # the importer without lone-pair stereo: the mode in which three-coordinate N / P / S get no descriptor,
            # as from coordinates; every four-coordinate centre (also N+, P+, S(VI), Si) keeps its label
            from stereomolgraph.rdmol2graph import RDMol2StereoMolGraph

            lp = False
            g_rd = StereoMolGraph(RDMol2StereoMolGraph(use_atom_map_number=False, stereo_complete=True, resonance=True, lone_pair_stereo=False)(m))
            ctx.count("import:lone_pair_stereo=False")
        else:
            g_rd = StereoMolGraph.from_rdmol(m)
        g_3d = StereoMolGraph.from_geometry(Geometry.from_xyz(Chem.MolToXYZBlock(m)))
    except Exception as e:  # noqa: BLE001
        ctx.violate(f"C14/route-raises:{type(e).__name__}/{fam}", f"{case['smiles']}: {e!r}", case)
        return
    s_rd, s_3d = snap(g_rd), snap(g_3d)
    if set(s_rd["bonds"]) != set(s_3d["bonds"]):
        ctx.violate(f"C14/connectivity-differs/{fam}", f"{case['smiles']} (seed {case['eseed']}): bonds only in RDKit graph {sorted(map(sorted, set(s_rd['bonds']) - set(s_3d['bonds'])))[:4]}, only in 3D graph {sorted(map(sorted, set(s_3d['bonds']) - set(s_rd['bonds'])))[:4]}", case)
        return
    keep = {frozenset((b.GetBeginAtomIdx(), b.GetEndAtomIdx())) for b in m.GetBonds() if b.GetBondType() == Chem.BondType.DOUBLE and not b.GetIsAromatic()}
    a, b = _strip(s_rd, keep), _strip(s_3d, keep)
    ga, gb = build(a), build(b)
    try:
        real = (ga == gb) and (gb == ga)
    except Exception as e:  # noqa: BLE001
        ctx.violate(f"C14/eq-raises:{type(e).__name__}/{fam}", f"{case['smiles']}: {e!r}", case)
        return
    ref = sem.isomorphic(a, b, budget=3_000_000)
    if not (real and ref):
        # which element disagrees (labelled comparison: both graphs use RDKit indices)
        what = "unknown"
        for k2, d in a["astereo"].items():
            e = b["astereo"].get(k2)
            if e is None:
                what = f"{d[0]}-only-from-annotations" + ("+placeholder" if None in d[1] else "")
            elif e[0] != d[0]:
                what = f"{d[0]}-vs-{e[0]}"
            elif not sem.desc_equiv(d, e) and what == "unknown":
                what = f"{d[0]}-parity"
        for k2, d in b["astereo"].items():
            if k2 not in a["astereo"] and what == "unknown":
                what = f"{d[0]}-only-from-coordinates"
        for k2, d in a["bstereo"].items():
            e = b["bstereo"].get(k2)
            if e is None:
                what = "PlanarBond-only-from-annotations" + ("+placeholder" if None in d[1] else "")
            elif not sem.desc_equiv(d, e) and what == "unknown":
                what = "PlanarBond-EZ"
        for k2, d in b["bstereo"].items():
            if k2 not in a["bstereo"] and what == "unknown":
                what = "PlanarBond-only-from-coordinates"
        if fam == "a2" and "placeholder" in what:
            key = f"C14/placeholder-not-perceived/{what.split('-')[0]}"
        elif _only_unlabelled_units_differ(m, a, b):
            # recorded finding (same mechanism as C12's): from_rdmol runs with stereo_complete=True and invents a
            # configuration for units RDKit left unlabelled; RDKit does not recognise every stereogenic unit (axial
            # chirality of alkylidene-cycloalkanes such as ClC(I)=C1CC(Cl)C1), so "one stereoisomer" cannot be enforced
            ctx.count("unlabelled_unit_disagreements")
            key = "C14/routes-disagree/unlabelled-unit/stereo_complete=1"
        else:
            key = f"C14/routes-disagree/{fam}/{what}"
        ctx.violate(key, f"{case['smiles']} (embed seed {case['eseed']}, relax={case['relax']}): RDKit-annotation graph and 3D graph compare {'equal' if real else 'unequal'} (reference: {'isomorphic' if ref else 'not isomorphic'}); {what}", case)
    ctx.sample({"smiles": case["smiles"], "family": fam, "embed_seed": case["eseed"], "n_atoms": len(els)})


def _only_unlabelled_units_differ(m, a, b):
    """both snapshots use the RDKit indices. True when they have the same descriptor keys and every descriptor that
    differs sits on a unit WITHOUT an RDKit label (untagged atom, STEREONONE / STEREOANY bond) and has the same class and
    ligand set on both sides"""
    from rdkit import Chem

    n = 0
    for key in ("astereo", "bstereo"):
        if set(a[key]) != set(b[key]):
            return False
        for k2, d in a[key].items():
            e = b[key][k2]
            if sem.desc_equiv(d, e):
                continue
            if d[0] != e[0] or sorted(map(repr, d[1])) != sorted(map(repr, e[1])):
                return False
            if key == "astereo":
                if m.GetAtomWithIdx(k2).GetChiralTag() != Chem.ChiralType.CHI_UNSPECIFIED:
                    return False
            else:
                x, y = tuple(k2)
                if m.GetBondBetweenAtoms(x, y).GetStereo() not in (Chem.BondStereo.STEREONONE, Chem.BondStereo.STEREOANY):
                    return False
                # a double bond in a ring of fewer than 8 atoms is not "left open" by RDKit: it is cis in that ring, the
                # importer says so deliberately (ring rule) and the finding does not cover a wrong answer there
                ri = m.GetRingInfo()
                if any(x in r and y in r and len(r) < 8 for r in ri.AtomRings()):
                    return False
            n += 1
    return n > 0


def _complex(ctx, case):
    from rdkit import Chem
    from rdkit.Geometry import Point3D
    from stereomolgraph.coords import Geometry
    from stereomolgraph.graphs.smg import StereoMolGraph

    rng = random.Random(case["gseed"])
    cls = case["cls"]
    els, X, flipped = geom.centre_template(rng, cls, noise=rng.choice([0.0, 0.02, 0.04]))
    if not geom.general_position(els, X):
        ctx.count("filtered:not-general-position")
        return
    n = len(els)
    order = list(range(n))
    rng.shuffle(order)
    idx = {}
    rw = Chem.RWMol()
    for k in order:
        a = Chem.Atom(els[k])
        a.SetNoImplicit(True)
        idx[k] = rw.AddAtom(a)
    bl = list(range(1, n))
    rng.shuffle(bl)
    for k in bl:
        if rng.random() < 0.5:
            rw.AddBond(idx[0], idx[k], Chem.BondType.SINGLE)
        else:
            rw.AddBond(idx[k], idx[0], Chem.BondType.SINGLE)
    conf = Chem.Conformer(n)
    Y = np.zeros_like(X)
    for k in range(n):
        conf.SetAtomPosition(idx[k], Point3D(*map(float, X[k])))
        Y[idx[k]] = X[k]
    rw.AddConformer(conf)
    mol = rw.GetMol()
    try:
        Chem.SanitizeMol(mol, Chem.SANITIZE_ALL ^ Chem.SANITIZE_PROPERTIES)
        Chem.AssignStereochemistryFrom3D(mol)
    except Exception:  # noqa: BLE001
        ctx.count("skipped:rdkit-cannot-handle-complex")
        return
    c = mol.GetAtomWithIdx(idx[0])
    want_tag = {"SquarePlanar": Chem.ChiralType.CHI_SQUAREPLANAR, "TrigonalBipyramidal": Chem.ChiralType.CHI_TRIGONALBIPYRAMIDAL, "Octahedral": Chem.ChiralType.CHI_OCTAHEDRAL}.get(cls)
    if (want_tag is not None and c.GetChiralTag() != want_tag) or (want_tag is None and c.GetChiralTag() not in (Chem.ChiralType.CHI_TETRAHEDRAL_CW, Chem.ChiralType.CHI_TETRAHEDRAL_CCW)):
        ctx.count(f"skipped:rdkit-assigned-{c.GetChiralTag()}-to-{cls}")
        return
    ctx.count("complexes")
    ctx.count(f"complex:{cls}")
    label = c.GetPropsAsDict().get("_chiralPermutation")
    ctx.case((cls, tuple(els), tuple(order), label), True)
    elements = [mol.GetAtomWithIdx(i).GetAtomicNum() for i in range(n)]
    try:
        d_rd = StereoMolGraph.from_rdmol(mol).atom_stereo.get(idx[0])
        d_3d = StereoMolGraph.from_geometry(Geometry(elements, Y)).atom_stereo.get(idx[0])
    except Exception as e:  # noqa: BLE001
        ctx.violate(f"C14/route-raises:{type(e).__name__}/complex-{cls}", f"{e!r}", case)
        return
    t = lambda d: None if d is None else (type(d).__name__, tuple(d.atoms), d.parity)
    a, b = t(d_rd), t(d_3d)
    if a is None or b is None or a[0] != b[0]:
        ctx.violate(f"C14/complex-class-differs/{cls}", f"RDKit label {label} imports as {a}, coordinates perceive {b}", case)
        return
    if not sem.desc_equiv(a, b):
        rel = "mirror-image" if sem.desc_equiv(sem.desc_invert(a), b) else "other-arrangement"
        ctx.violate(f"C14/complex-descriptor-differs/{cls}/{rel}", f"RDKit label {label} imports as {a}, coordinates perceive {b} ({rel})", case)
    try:
        if (d_rd == d_3d) is not sem.desc_equiv(a, b):
            ctx.count("diag:descriptor-eq-disagrees-with-geometric-oracle")
    except Exception:  # noqa: BLE001
        pass
    ctx.sample({"kind": "complex", "class": cls, "elements": els, "rdkit_label": label, "import": str(a), "perceived": str(b)})
