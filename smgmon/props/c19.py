"""C19 - rejected edits are atomic (fault enumeration at visited states)."""
from __future__ import annotations

import random

from .. import model, sem
from ..snapshot import CLASS_NAMES, REACTION, STEREO, classes, raw_views, views_equal
from . import c09

LEVEL = "fault_enumeration"
RULE = (
    "states: every state of a breadth-first exploration (depth <= 2 over the C09 alphabet) and every 3rd state of random "
    "editing histories (5-80 ops, 10 ids, all descriptor classes, descriptors that may name absent ligands); at each state "
    "the full catalogue of ill-formed requests is instantiated against the current state and injected: unknown atom / "
    "unknown bond for every mutator, self-bonds through add_bond and the three role adders, descriptors and stereo changes "
    "centred on unknown atoms/bonds or on two centres, non-element atom types ('Xx', 0, 119, None, '') through add_atom "
    "(new and existing id) and set_atom_attribute, wrong-typed reaction labels through add_bond and set_bond_attribute, "
    "deleting the element attribute, and lookups about absent atoms and bonds. Oracle: edits raise AND every view (raw, "
    "incl. neighbour/stereo/change keys) is unchanged; lookups leave every view unchanged. Non-trivial: state has >= 1 "
    "atom; distinct = distinct (state, fault kind, target) triples."
)
ASSUMPTIONS = [
    "which requests are ill-formed is decided by the reference model (DESIGN.md Appendix A), the exception type is recorded, not judged",
    "an empty neighbour set / change dict of a PRESENT atom or bond is identified with 'no entry'; entries for absent keys are not",
]
ANCHORS = [
    "stereomolgraph.graphs.mg:MolGraph.add_bond",
    "stereomolgraph.graphs.mg:MolGraph.add_atom",
    "stereomolgraph.graphs.mg:MolGraph.remove_atom",
    "stereomolgraph.graphs.mg:MolGraph.set_atom_attribute",
    "stereomolgraph.graphs.mg:MolGraph.delete_atom_attribute",
    "stereomolgraph.graphs.smg:StereoMolGraph.set_atom_stereo",
    "stereomolgraph.graphs.smg:StereoMolGraph.set_bond_stereo",
    "stereomolgraph.graphs.smg:StereoMolGraph.remove_atom",
    "stereomolgraph.graphs.crg:CondensedReactionGraph.add_bond",
    "stereomolgraph.graphs.crg:CondensedReactionGraph.set_bond_attribute",
    "stereomolgraph.graphs.scrg:StereoCondensedReactionGraph.set_atom_stereo_change",
    "stereomolgraph.graphs.scrg:StereoCondensedReactionGraph.set_bond_stereo_change",
    "stereomolgraph.graphs.scrg:StereoCondensedReactionGraph.delete_atom_stereo_change",
]
REQUIRED_ANCHORS = ANCHORS
FAULT_KINDS = ["unknown-atom", "unknown-bond", "self-bond", "unknown-centre", "two-centres", "non-element", "wrong-role-label", "delete-element", "lookup-absent"]
REQUIRED = ["states_injected", "faults_injected", "derived_states"] + [f"fault:{k}" for k in FAULT_KINDS]
CASE_TIMEOUT = 900


def catalogue(M, cls, rng):
    """list of (kind, op) instantiated against model state M.  op is a model op or ['lookup', name, args]"""
    A, B = M["atoms"], M["bonds"]
    P = sorted(A, key=repr)
    X = 777
    while X in A:
        X += 1
    # prefer an absent id that some descriptor still names as a ligand (API-legal state)
    named = sorted({x for d in list(M["astereo"].values()) + list(M["bstereo"].values()) + [d for v in list(M["achange"].values()) + list(M["bchange"].values()) for d in v.values()] for x in d[1] if x is not None and x not in A}, key=repr)
    if named and rng.random() < 0.7:
        X = rng.choice(named)
    Y = 1777
    while Y in A or Y == X:
        Y += 1
    out = []
    p = rng.choice(P) if P else None
    q = rng.choice([a for a in P if a != p]) if len(P) > 1 else None
    absent_pairs = []
    if p is not None:
        absent_pairs.append((p, X))
    absent_pairs.append((X, Y))
    if q is not None:
        nb = [(a, b) for i, a in enumerate(P) for b in P[i + 1:] if frozenset((a, b)) not in B]
        if nb:
            absent_pairs.append(rng.choice(nb))
    bond = tuple(sorted(rng.choice(sorted(B, key=sorted)))) if B else None
    reaction, stereo = cls in REACTION, cls in STEREO
    adders = ["add_bond"] + (["add_formed_bond", "add_broken_bond", "add_fleeting_bond"] if reaction else [])
    # --- unknown atom
    out.append(("unknown-atom", ["remove_atom", X]))
    out.append(("unknown-atom", ["set_atom_attribute", X, "label", 1]))
    out.append(("unknown-atom", ["set_atom_attribute", X, "atom_type", "C"]))
    out.append(("unknown-atom", ["delete_atom_attribute", X, "label"]))
    for ad in adders:
        out.append(("unknown-atom", [ad, X, Y]))
        if p is not None:
            out.append(("unknown-atom", [ad, p, X]))
            out.append(("unknown-atom", [ad, X, p]))
    # --- unknown bond
    for a, b in absent_pairs:
        out.append(("unknown-bond", ["remove_bond", a, b]))
        out.append(("unknown-bond", ["set_bond_attribute", a, b, "bond_order", 2]))
        out.append(("unknown-bond", ["delete_bond_attribute", a, b, "bond_order"]))
        if reaction:
            out.append(("unknown-bond", ["set_bond_attribute", a, b, "reaction", {"$change": "FORMED"}]))
    # --- self bond
    if p is not None:
        for ad in adders:
            out.append(("self-bond", [ad, p, p]))
        out.append(("self-bond", ["add_bond", p, p, {"bond_order": 1}]))
    # --- non-element
    for bad in ("Xx", 0, 119, None, "", -6, "carbon", 6.5, {"$np": ["float64", 6.7]}, {"$np": ["float32", 1.5]}, {"$np": ["float64", 118.2]}, {"$np": ["int64", 0]}, {"$np": ["int64", 119]}):
        out.append(("non-element", ["add_atom", X, bad]))
        if p is not None:
            out.append(("non-element", ["add_atom", p, bad]))
            out.append(("non-element", ["set_atom_attribute", p, "atom_type", bad]))
    # --- delete element
    if p is not None:
        out.append(("delete-element", ["delete_atom_attribute", p, "atom_type"]))
    out.append(("delete-element", ["delete_atom_attribute", X, "atom_type"]))
    # --- wrong role label
    if reaction:
        for bad in ("formed", "FORMED", 1, None, True):
            if q is not None:
                out.append(("wrong-role-label", ["add_bond", p, q, {"reaction": bad}]))
            if bond:
                out.append(("wrong-role-label", ["set_bond_attribute", bond[0], bond[1], "reaction", bad]))
    # --- descriptors / changes on unknown centres
    if stereo:
        lig = (P + [X, Y, Y + 1, Y + 2])[:3]
        out.append(("unknown-centre", ["set_atom_stereo", ["Tetrahedral", [X, *lig, None], 1]]))
        out.append(("unknown-centre", ["set_atom_stereo", ["Octahedral", [X, *(P + [Y] * 6)[:6]], -1]]))
        out.append(("unknown-atom", ["delete_atom_stereo", X]))
        # the placeholder None in the centre position is not an atom either
        out.append(("unknown-centre", ["set_atom_stereo", ["Tetrahedral", [None, *lig, Y], 1]]))
        if p is not None:
            out.append(("unknown-centre", ["set_bond_stereo", ["PlanarBond", [Y, Y + 1, None, p, Y + 2, None], 0]]))
        for a, b in absent_pairs:
            out.append(("unknown-centre", ["set_bond_stereo", ["PlanarBond", [None, Y, a, b, Y, None], 0]]))
            out.append(("unknown-centre", ["set_bond_stereo", ["AtropBond", [Y, None, b, a, None, Y], 1]]))
            if frozenset((a, b)) not in M["bstereo"]:
                out.append(("unknown-bond", ["delete_bond_stereo", [a, b]]))
        if cls == "StereoCondensedReactionGraph":
            t = lambda c, par=1: ["Tetrahedral", [c, *lig, None], par]
            for slots in (("broken",), ("formed",), ("fleeting",), ("broken", "formed"), ("broken", "fleeting", "formed")):
                out.append(("unknown-centre", ["set_atom_stereo_change", {s: t(X) for s in slots}]))
            out.append(("unknown-atom", ["delete_atom_stereo_change", X, None]))
            for s in model.ROLES:
                out.append(("unknown-atom", ["delete_atom_stereo_change", X, s]))
            for a, b in absent_pairs:
                pb = ["PlanarBond", [None, Y, a, b, Y, None], 0]
                out.append(("unknown-centre", ["set_bond_stereo_change", {"broken": pb}]))
                out.append(("unknown-centre", ["set_bond_stereo_change", {"formed": pb, "fleeting": pb}]))
                if frozenset((a, b)) not in M["bchange"]:
                    out.append(("unknown-bond", ["delete_bond_stereo_change", [a, b], None]))
                    out.append(("unknown-bond", ["delete_bond_stereo_change", [a, b], "FLEETING"]))
            out.append(("unknown-centre", ["set_atom_stereo_change", {"broken": t(None)}]))
            if p is not None:
                out.append(("two-centres", ["set_atom_stereo_change", {"broken": t(p), "formed": t(None, -1)}]))
                out.append(("two-centres", ["set_atom_stereo_change", {"fleeting": t(None), "formed": t(p), "broken": t(p)}]))
            if bond:
                out.append(("two-centres", ["set_bond_stereo_change", {"broken": ["PlanarBond", [None, Y, bond[0], bond[1], Y, None], 0], "formed": ["PlanarBond", [Y, Y + 1, None, bond[1], Y + 2, None], 0]}]))
                # two UNSPECIFIED descriptors over the same six atoms centred on different bonds (such descriptors
                # compare equal and hash alike, a set of them has one element)
                l1, l2, l3, l4 = Y, Y + 1, Y + 2, Y + 3
                for klass in ("PlanarBond", "AtropBond"):
                    out.append(("two-centres", ["set_bond_stereo_change", {"broken": [klass, [l1, l2, bond[0], bond[1], l3, l4], None], "formed": [klass, [bond[0], l2, l1, l3, bond[1], l4], None]}]))
                out.append(("two-centres", ["set_bond_stereo_change", {"fleeting": ["PlanarBond", [l1, l2, bond[0], bond[1], l3, l4], None], "broken": ["AtropBond", [bond[0], bond[1], l2, l4, l1, l3], None]}]))
            if p is not None:
                # likewise for atom centres: same five atoms, unspecified, centred on p and on one of its ligands
                out.append(("two-centres", ["set_atom_stereo_change", {"broken": ["Tetrahedral", [p, Y, Y + 1, Y + 2, Y + 3], None], "formed": ["Tetrahedral", [Y, p, Y + 1, Y + 2, Y + 3], None]}]))
            if q is not None:
                out.append(("two-centres", ["set_atom_stereo_change", {"broken": t(p), "formed": t(q, -1)}]))
                out.append(("two-centres", ["set_atom_stereo_change", {"fleeting": t(q), "formed": t(p)}]))
                out.append(("two-centres", ["set_atom_stereo_change", {"broken": t(p), "formed": t(X)}]))
            if bond and len(B) > 1:
                b2 = tuple(sorted(rng.choice([x for x in sorted(B, key=sorted) if tuple(sorted(x)) != bond])))
                out.append(("two-centres", ["set_bond_stereo_change", {"broken": ["PlanarBond", [None, Y, bond[0], bond[1], Y, None], 0], "formed": ["PlanarBond", [None, Y, b2[0], b2[1], Y, None], 0]}]))
    # --- lookups about absent atoms / bonds
    L = lambda name, *args: ("lookup-absent", ["lookup", name, list(args)])
    out += [L("has_atom", X), L("get_atom_attribute", X, "label"), L("get_atom_attribute", X, "atom_type"), L("get_atom_attributes", X), L("get_atom_attributes", X, ["atom_type"]), L("get_atom_type", X), L("bonded_to", X), L("node_connected_component", X)]
    for a, b in absent_pairs:
        out += [L("has_bond", a, b), L("get_bond_attribute", a, b, "bond_order"), L("get_bond_attributes", a, b), L("get_bond_attributes", a, b, ["bond_order"])]
    if stereo:
        out.append(L("get_atom_stereo", X))
        for a, b in absent_pairs:
            out.append(L("get_bond_stereo", [a, b]))
        if cls == "StereoCondensedReactionGraph":
            out.append(L("get_atom_stereo_change", X))
            for a, b in absent_pairs:
                out.append(L("get_bond_stereo_change", [a, b]))
    return out


def inject(ctx, g, M, cls, case, rng, rebuild=None):
    ctx.count("states_injected")
    clean = True
    nontrivial = len(M["atoms"]) >= 1
    skey = c09.pg_key(M)
    for kind, op in catalogue(M, cls, rng):
        before = raw_views(g)
        if op[0] == "lookup":
            try:
                getattr(g, op[1])(*op[2])
                status = "answered"
            except Exception as e:  # noqa: BLE001
                status = "raised:" + type(e).__name__
            expect_raise = False
        else:
            k = model.classify(M, cls, op)
            if k != "must-raise":
                ctx.count("harness:catalogue-entry-not-ill-formed")
                if model.apply_real(g, op)[0] == "ok":
                    # keep model and real in step; this entry proves nothing
                    return False
                continue
            st, val = model.apply_real(g, op)
            status = "accepted" if st == "ok" else "raised:" + val
            expect_raise = True
        try:
            after = raw_views(g)
        except Exception as e:  # noqa: BLE001  the views themselves no longer work: the request corrupted the graph
            ctx.count("faults_injected")
            ctx.count(f"fault:{kind}")
            ctx.violate(f"C19/{'accepted' if status == 'accepted' else 'not-atomic'}/{cls}/{kind}/{op[1] if op[0] == 'lookup' else c09.opkey(op)}/views-broken", f"{op} ({status}) left a graph whose views raise {e!r}", dict(case, fault=op, fault_kind=kind))
            if rebuild is None:
                return False
            g, M = rebuild()
            clean = False
            continue
        ctx.count("faults_injected")
        ctx.count(f"fault:{kind}")
        ctx.count(f"outcome:{op[1] if op[0] == 'lookup' else op[0]}:{status}")
        tgt = op[1] if op[0] == "lookup" else c09.opkey(op)
        ctx.case((skey, kind, repr(op)), nontrivial)
        d = views_equal(before, after)
        fcase = dict(case, fault=op, fault_kind=kind)
        if expect_raise and status == "accepted":
            ctx.violate(f"C19/accepted/{cls}/{kind}/{tgt}", f"ill-formed request {op} was accepted" + (f" and changed: {d[0]}" if d else ""), fcase)
        elif d:
            which = "lookup-changes-view" if op[0] == "lookup" else "not-atomic"
            ctx.violate(f"C19/{which}/{cls}/{kind}/{tgt}", f"{op} ({status}) changed a view: {d[0]}", fcase)
        if d or (expect_raise and status == "accepted"):
            clean = False
            if rebuild is None:
                return False
            g, M = rebuild()  # state diverged: continue the catalogue on a fresh copy of the state
    return clean


def _state_from(cls, hist):
    def make():
        g, M = classes()[cls](), sem.pg_empty(cls)
        for op in hist:
            model.apply_real(g, op)
        _resync(g, M)
        return g, M

    return make


def gen_cases(ctx):
    rng = ctx.rng
    k = 0
    for cls in CLASS_NAMES:
        ops0 = [op for op in c09.alphabet(cls) if op[0] == "add_atom"][::3]
        for op in ops0:
            if k % ctx.nshards == ctx.shard:
                yield {"kind": "bfs", "cls": cls, "first": op, "max_states": 60 if ctx.tier == "quick" else 1500}
            k += 1
    n = ctx.n(1500, 30000)
    for i in range(n):
        yield {"kind": "random", "cls": CLASS_NAMES[(i + ctx.shard) % 4], "hseed": rng.randrange(1 << 30), "length": rng.choice([5, 10, 20, 40, 80])}
    from .. import gen
    from ..snapshot import pg_to_json

    for i in range(ctx.n(800, 16000)):
        cls = CLASS_NAMES[(i + ctx.shard) % 4]
        pg = gen.random_pg(rng, cls, n_range=(1, 8), alphabet=gen.SMALL, p_stereo=0.6, p_change=0.4, attrs=True, p_none=0.1)
        yield {"kind": "derived", "cls": cls, "pg": pg_to_json(pg), "bseed": rng.randrange(1 << 30)}


def check_case(ctx, case):
    cls = case["cls"]
    Cls = classes()[cls]
    if case["kind"] == "history":
        g, M = Cls(), sem.pg_empty(cls)
        for op in case["history"]:
            model.apply_real(g, op)
            if model.classify(M, cls, op) == "ok":
                model.apply_model(M, cls, op)
        _resync(g, M)
        if "fault" in case:
            return _one_fault(ctx, g, M, cls, case)
        return inject(ctx, g, M, cls, case, random.Random(case.get("fseed", 0)), _state_from(cls, case["history"]))
    if case["kind"] == "derived":
        # states that come out of library derivations (subgraph, compose, relabel, removals, copies, JSON) instead of an edit history
        from .. import gen
        from ..snapshot import DerivationWrong, build_case, pg_from_json

        pg = pg_from_json(case["pg"])

        def make():
            g_, _ = build_case(pg, case["bseed"])
            M_ = sem.pg_empty(cls)
            _resync(g_, M_)
            return g_, M_

        try:
            g, M = make()
        except DerivationWrong as e:
            ctx.violate(f"C19/derived-input-differs/{cls}/{e.via}", f"deriving the state: {e}", case)
            return
        from ..snapshot import via_for

        ctx.count("derived_states")
        ctx.count(f"via:{via_for(case['bseed'])}")
        if "fault" in case:
            return _one_fault(ctx, g, M, cls, case)
        inject(ctx, g, M, cls, case, random.Random(case["bseed"] + 1), make)
        return
    if case["kind"] == "random":
        rng = random.Random(case["hseed"])
        ids = list(range(10))
        g, M = Cls(), sem.pg_empty(cls)
        hist = []
        for i in range(case["length"]):
            op = c09.random_op(rng, M, cls, ids)
            if model.classify(M, cls, op) in ("must-raise", "skip"):
                continue
            st, _ = model.apply_real(g, op)
            kind = model.classify(M, cls, op)
            if kind == "ok" and st == "ok":
                model.apply_model(M, cls, op)
            _resync(g, M)
            hist.append(op)
            if i % 3 == 2 or i == case["length"] - 1:
                fseed = rng.randrange(1 << 30)
                if not inject(ctx, g, M, cls, {"kind": "history", "cls": cls, "history": list(hist), "fseed": fseed}, random.Random(fseed), _state_from(cls, list(hist))):
                    return
        ctx.sample({"kind": "random-history", "class": cls, "ops": len(hist), "last_ops": hist[-3:]}, cap=1)
        return
    # bfs over the C09 alphabet, depth <= 2, inject at every state
    alpha = c09.alphabet(cls)
    seen, frontier, n_states = set(), [[case["first"]]], 0
    for depth in range(3):
        nxt = []
        for hist in frontier:
            g, M = Cls(), sem.pg_empty(cls)
            for op in hist:
                model.apply_real(g, op)
                if model.classify(M, cls, op) == "ok":
                    model.apply_model(M, cls, op)
            _resync(g, M)
            key = (c09.pg_key(M), c09.shape(g))
            if key in seen:
                continue
            seen.add(key)
            n_states += 1
            inject(ctx, g, M, cls, {"kind": "history", "cls": cls, "history": list(hist), "fseed": n_states}, random.Random(n_states), _state_from(cls, list(hist)))
            if n_states >= case["max_states"] or not ctx.time_left():
                return
            for op in alpha:
                if model.classify(M, cls, op) == "ok":
                    nxt.append(hist + [op])
        frontier = nxt
    ctx.sample({"kind": "bfs", "class": cls, "first": case["first"], "states": n_states}, cap=1)


def _resync(g, M):
    from ..snapshot import snap

    S = snap(g)
    for k in ("atoms", "bonds", "astereo", "bstereo"):
        M[k] = S[k]
    M["achange"] = {k: v for k, v in S["achange"].items() if v}
    M["bchange"] = {k: v for k, v in S["bchange"].items() if v}


def _one_fault(ctx, g, M, cls, case):
    """replay of a single recorded fault"""
    op, kind = case["fault"], case.get("fault_kind", "?")
    before = raw_views(g)
    if op[0] == "lookup":
        try:
            getattr(g, op[1])(*op[2])
            status = "answered"
        except Exception as e:  # noqa: BLE001
            status = "raised:" + type(e).__name__
        expect = False
    else:
        st, val = model.apply_real(g, op)
        status = "accepted" if st == "ok" else "raised:" + val
        expect = model.classify(M, cls, op) == "must-raise"
    d = views_equal(before, raw_views(g))
    ctx.case(("replay", repr(op)), True)
    tgt = op[1] if op[0] == "lookup" else c09.opkey(op)
    if expect and status == "accepted":
        ctx.violate(f"C19/accepted/{cls}/{kind}/{tgt}", f"ill-formed request {op} was accepted", case)
    elif d:
        ctx.violate(f"C19/{'lookup-changes-view' if op[0] == 'lookup' else 'not-atomic'}/{cls}/{kind}/{tgt}", f"{op} ({status}) changed a view: {d[0]}", case)
