"""C02 - equality never lies: real == is compared with an independent isomorphism search."""
from __future__ import annotations

import random
from collections import Counter

from .. import gen, sem
from ..snapshot import CLASS_NAMES, DerivationWrong, REACTION, STEREO, build, build_case, pg_from_json, pg_to_json

LEVEL = "exploration"
RULE = (
    "(i) independent pairs of small same-class graphs (<=7 atoms, tiny element alphabets; about half built as "
    "shuffled rebuilds, optionally mutated; 10 % 1-WL-indistinguishable pairs: unions of regular components, random 3-/4-regular one-element graphs vs relabelled copies or 2-switches of themselves); (ii) single-feature mutations of larger graphs (element, bond "
    "moved/added/removed, bond role, inverted centre, swapped ligands incl. placeholders, E/Z flip, stereo-change "
    "edits, formed<->broken swap; 12 % of these on 20-110 atom chains, macrocycles, big random graphs and RDKit molecules); (iii) all 12 ordered cross-class pairs built from one snapshot. Fully specified "
    "parities. Truth = independent backtracking search (sem.iter_isos) for a bijection preserving elements, bonds, "
    "roles, descriptors up to symmetry and stereo changes; 'mutated => unequal' is never assumed. Non-trivial: same "
    "atom count, element multiset and degree sequence (or a cross-class pair); distinct by invariants of both graphs "
    "and mutation kind."
)
ASSUMPTIONS = [
    "reference enumerator of sem.py (validated against permutation brute force at start-up)",
    "descriptor semantics from Kabsch-derived rotation groups",
]
ANCHORS = [
    "stereomolgraph.graphs.mg:MolGraph.__eq__",
    "stereomolgraph.graphs.smg:StereoMolGraph.__eq__",
    "stereomolgraph.graphs.crg:CondensedReactionGraph.__eq__",
    "stereomolgraph.graphs.scrg:StereoCondensedReactionGraph.__eq__",
    "stereomolgraph.algorithms.color_refine:morgan_generator",
    "stereomolgraph.algorithms.color_refine:stereo_morgan_generator",
    "stereomolgraph.algorithms.color_refine:_reaction_generator",
    "stereomolgraph.algorithms.isomorphism:_graph_feasibility",
    "stereomolgraph.algorithms.isomorphism:_find_candidates",
    "stereomolgraph.algorithms.isomorphism:_stereo_feasibility",
    "stereomolgraph.algorithms.isomorphism:_stereo_change_feasibility",
]
REQUIRED_ANCHORS = ANCHORS
REQUIRED = ["oracle_equal", "oracle_unequal", "cross_class_pairs", "mutation_pairs", "independent_pairs", "with_placeholder", "wl_hard_pairs", "large_pairs", "switch_pairs", "bond_change_only_pairs", "static_under_change_pairs"]


def gen_cases(ctx):
    rng = ctx.rng
    yield from _regular_pairs(ctx, rng)
    yield from _switch_pairs(ctx, rng)
    # cis / trans ring isomers (tied under colour refinement) whose deciding ligands carry ids with colliding hashes
    for i in range(ctx.n(800, 10000)):
        cls = STEREO[i % 2]
        a, b = gen.cis_trans_pair_colliding(rng, cls)
        yield {"kind": "indep", "cls": cls, "a": pg_to_json(a), "b": pg_to_json(sem.pg_relabel(b, gen.random_bijection(rng, b)) if i % 3 == 0 else b), "mut": None, "bseed": rng.randrange(1 << 30), "family": "colliding-ids", "direct": True}
    # the only stereo element sits in a bond stereo change, no bond changes its role, no atom stereo change
    for i in range(ctx.n(1600, 20000)):
        a, b = gen.bond_change_only_pair(rng)
        yield {"kind": "indep", "cls": "StereoCondensedReactionGraph", "a": pg_to_json(a), "b": pg_to_json(b), "mut": None, "bseed": rng.randrange(1 << 30), "family": "bond-change-only"}
    # one centre carrying a static descriptor AND a complete stereo change: graphs that differ only in the static one
    for i in range(ctx.n(800, 10000)):
        a, b = gen.static_under_change_pair(rng)
        yield {"kind": "indep", "cls": "StereoCondensedReactionGraph", "a": pg_to_json(a), "b": pg_to_json(b), "mut": None, "bseed": rng.randrange(1 << 30), "family": "static-under-change"}
    n = ctx.n(12000, 250000)
    big = (4, 12) if ctx.tier == "quick" else (4, 24)
    for i in range(n):
        cls = CLASS_NAMES[i % 4]
        j = (i // 4) % 10
        if j < 4:  # independent pair
            alpha = rng.choice([gen.TINY, gen.TINY, (6, 1, 8)])
            nn = rng.randint(1, 7)
            a = gen.random_pg(rng, cls, n_range=(nn, nn), alphabet=alpha, p_stereo=0.7, allow_isolated=rng.random() < 0.2, attrs=rng.random() < 0.25)  # (further attributes - labels, charges, bond orders - play no part in ==)
            how = rng.random()
            if how < 0.35:
                b = sem.pg_relabel(a, gen.random_bijection(rng, a))
            elif how < 0.7:
                b = sem.pg_relabel(a, gen.random_bijection(rng, a))
                r = gen.mutate(rng, b)
                if r:
                    b = r[1]
            else:
                b = gen.random_pg(rng, cls, n_range=(len(a["atoms"]),) * 2, alphabet=alpha, p_stereo=0.7, allow_isolated=False)
            yield {"kind": "indep", "cls": cls, "a": pg_to_json(a), "b": pg_to_json(b), "mut": None, "bseed": rng.randrange(1 << 30)}
        elif j == 8 and rng.random() < 0.4:  # dense regular one-element graphs vs a relabelled copy or a 2-switch of themselves
            a = gen.random_regular_pg(rng, cls)
            if a is None:
                continue
            b = a if rng.random() < 0.4 else (gen.two_switch(rng, a) or a)
            b = sem.pg_relabel(b, gen.random_bijection(rng, b))
            yield {"kind": "wl-hard", "cls": cls, "a": pg_to_json(a), "b": pg_to_json(b), "mut": None, "bseed": rng.randrange(1 << 30)}
        elif j == 8:  # 1-WL-hard pairs: unions of regular components that colour refinement cannot separate
            group = rng.choice(gen.WL_GROUPS)
            ca = rng.choice(group)
            hyd = rng.choice([0, 0, 2]) if all(c.startswith("ring") for g_ in group for c in g_) else 0
            a = gen.wl_hard_pg(rng, cls, comps=ca, hydrogens=hyd, decorate_p=0.3, z=6)
            how = rng.random()
            if how < 0.35:
                b = sem.pg_relabel(a, gen.random_bijection(rng, a))
            elif how < 0.6:
                b = sem.pg_relabel(a, gen.random_bijection(rng, a))
                r = gen.mutate(rng, b, rng.choice(["role", "move_bond", "invert", "swap_roles"]))
                if r:
                    b = r[1]
            else:
                b = sem.pg_relabel(gen.wl_hard_pg(rng, cls, comps=rng.choice(group), hydrogens=hyd, decorate_p=0.3, z=6), gen.random_bijection(rng, a, "fresh"))
            yield {"kind": "wl-hard", "cls": cls, "a": pg_to_json(a), "b": pg_to_json(b), "mut": None, "bseed": rng.randrange(1 << 30)}
        elif j < 9:  # single-feature mutation
            if rng.random() < 0.12:
                a = _specified(gen.large_pg(rng, cls))  # a single edit somewhere in a 20-110 atom graph
            else:
                a = gen.random_pg(rng, cls, n_range=big if rng.random() < 0.5 else (3, 9), alphabet=rng.choice([gen.TINY, gen.SMALL, gen.WIDE]), p_stereo=0.7)
            r = gen.mutate(rng, sem.pg_relabel(a, gen.random_bijection(rng, a)))
            if not r:
                continue
            yield {"kind": "mut", "cls": cls, "a": pg_to_json(a), "b": pg_to_json(r[1]), "mut": r[0], "bseed": rng.randrange(1 << 30)}
        else:  # cross-class
            a = gen.random_pg(rng, "StereoCondensedReactionGraph", n_range=(1, 8), alphabet=gen.SMALL, p_stereo=rng.choice([0.0, 0.6]), p_role=rng.choice([0.0, 0.3]), p_change=rng.choice([0.0, 0.3]))
            yield {"kind": "cross", "cls": "cross", "a": pg_to_json(a), "b": None, "mut": None, "bseed": rng.randrange(1 << 30)}


def _regular_pairs(ctx, rng):
    """dense regular one-element graphs (optionally with one hydrogen per atom) vs a relabelled copy or a 2-switch of
    themselves: nothing but the bond checks of the search itself can tell them apart"""
    for i in range(ctx.n(4000, 60000)):
        cls = CLASS_NAMES[i % 4]
        a = gen.random_regular_pg(rng, cls, n=rng.choice([10, 12, 12, 14, 16]))
        if a is None:
            continue
        if rng.random() < 0.3:
            top = max(abs(x) for x in a["atoms"]) + 1
            for k, x in enumerate(list(a["atoms"])):
                a["atoms"][top + k] = {"atom_type": 1}
                a["bonds"][frozenset((x, top + k))] = {}
        b = a if i // 4 % 4 == 0 else (gen.two_switch(rng, a) or a)
        b = sem.pg_relabel(b, gen.random_bijection(rng, b))
        yield {"kind": "wl-hard", "cls": cls, "a": pg_to_json(a), "b": pg_to_json(b), "mut": None, "bseed": rng.randrange(1 << 30)}


def _switch_pairs(ctx, rng):
    """small irregular graphs (6-10 atoms, one or two elements, edge density 0.25-0.5; colour refinement usually gives
    every atom its own colour) against a 2-switch of themselves: same degrees, same labels, almost the same refined
    colours - whether they are isomorphic is decided by the search alone"""
    for i in range(ctx.n(32000, 400000)):
        cls = CLASS_NAMES[0] if i % 2 == 0 else CLASS_NAMES[i % 4]
        n = rng.randint(6, 10)
        ids = gen.make_ids(rng, n, "range")
        a = sem.pg_empty(cls)
        two = rng.random() < 0.5
        for x in ids:
            a["atoms"][x] = {"atom_type": rng.choice([6, 7]) if two else 6}
        dens = rng.uniform(0.25, 0.5)
        for p in range(n):
            for q in range(p + 1, n):
                if rng.random() < dens:
                    a["bonds"][frozenset((ids[p], ids[q]))] = {}
        if len(a["bonds"]) < 3:
            continue
        if cls in STEREO and max(len(v) for v in sem.pg_neighbors(a).values()) > 5:
            continue  # (the stereo classes refine over all k! neighbour orders of an atom without descriptor)
        b = gen.two_switch(rng, a)
        if b is None:
            continue
        b = sem.pg_relabel(b, gen.random_bijection(rng, b))
        yield {"kind": "switch", "cls": cls, "a": pg_to_json(a), "b": pg_to_json(b), "mut": None, "bseed": rng.randrange(1 << 30)}


def _specified(pg):
    """C02 is stated for fully specified parities"""
    fix = lambda d: d if d[2] is not None else (d[0], d[1], 0 if d[0] in ("SquarePlanar", "PlanarBond") else 1)
    for key in ("astereo", "bstereo"):
        pg[key] = {k: fix(d) for k, d in pg[key].items()}
    for key in ("achange", "bchange"):
        pg[key] = {k: {s_: fix(d) for s_, d in v.items()} for k, v in pg[key].items()}
    return pg


def _strip(pg, cls):
    """restrict a plain graph to what class `cls` can hold"""
    g = sem.pg_copy(pg)
    g["cls"] = cls
    if cls not in STEREO:
        g["astereo"], g["bstereo"] = {}, {}
    if cls != "StereoCondensedReactionGraph":
        g["achange"], g["bchange"] = {}, {}
    if cls not in REACTION:
        for v in g["bonds"].values():
            v.pop("reaction", None)
    return g


def _why(a, b):
    za = Counter(v["atom_type"] for v in a["atoms"].values())
    zb = Counter(v["atom_type"] for v in b["atoms"].values())
    if za != zb:
        return "elements"
    na, nb = sem.pg_neighbors(a), sem.pg_neighbors(b)
    if sorted(len(v) for v in na.values()) != sorted(len(v) for v in nb.values()):
        return "degrees"
    ra = Counter(str(v.get("reaction")) for v in a["bonds"].values())
    rb = Counter(str(v.get("reaction")) for v in b["bonds"].values())
    if ra != rb:
        return "role-counts"
    plain = lambda g: {**sem.pg_copy(g), "astereo": {}, "bstereo": {}, "achange": {}, "bchange": {}}
    noroles = lambda g: {**plain(g), "bonds": {k: {} for k in g["bonds"]}}
    try:
        if not sem.isomorphic(noroles(a), noroles(b), budget=200000):
            return "connectivity"
        if not sem.isomorphic(plain(a), plain(b), budget=200000):
            return "roles"
        if not sem.isomorphic(a, b, stereo=True, changes=False, budget=200000):
            ph = any(None in d[1] for g in (a, b) for d in list(g["astereo"].values()) + list(g["bstereo"].values()))
            return "stereo" + ("+placeholder" if ph else "")
        return "stereo-changes"
    except TimeoutError:
        return "unclassified"


def check_case(ctx, case):
    kind = case["kind"]
    brng = random.Random(case["bseed"])
    a = pg_from_json(case["a"])
    if kind == "cross":
        graphs = {c: build(_strip(a, c), rng=random.Random(case["bseed"] + k)) for k, c in enumerate(CLASS_NAMES)}
        for c1 in CLASS_NAMES:
            for c2 in CLASS_NAMES:
                if c1 == c2:
                    continue
                try:
                    r = graphs[c1] == graphs[c2]
                except Exception as e:  # noqa: BLE001
                    ctx.violate(f"C02/eq-raises:{type(e).__name__}/cross-class/{c1}-{c2}", f"{c1} == {c2} raised {e!r}", case)
                    continue
                ctx.count("cross_class_pairs")
                ctx.case(("cross", c1, c2, sem.canon_key(a)), True)
                if r is not False:
                    ctx.violate(f"C02/eq-lie/cross-class/{c1}-{c2}", f"a {c1} compared equal ({r!r}) to a {c2} built from the same atoms and bonds ({len(a['atoms'])} atoms)", case)
        return
    b = pg_from_json(case["b"])
    cls = case["cls"]
    descs = [d for g in (a, b) for d in list(g["astereo"].values()) + list(g["bstereo"].values()) + [x for v in list(g["achange"].values()) + list(g["bchange"].values()) for x in v.values()]]
    try:  # seed-chosen provenance (direct build, subgraph, compose, relabel, removals, copies, JSON)
        ga, via = build_case(a, case["bseed"])
        gb, _ = build_case(b, case["bseed"] // 15)
    except DerivationWrong as e:
        ctx.violate(f"C02/derived-input-differs/{cls}/{e.via}", f"deriving the input graph: {e}", case)
        ctx.case()
        return
    ctx.count(f"via:{via}")
    truth = sem.isomorphic(a, b, budget=1_500_000)
    na, nb = sem.pg_neighbors(a), sem.pg_neighbors(b)
    nontrivial = (
        len(a["atoms"]) == len(b["atoms"])
        and Counter(v["atom_type"] for v in a["atoms"].values()) == Counter(v["atom_type"] for v in b["atoms"].values())
        and sorted(len(v) for v in na.values()) == sorted(len(v) for v in nb.values())
    )
    ctx.case((kind, case["mut"], sem.canon_key(a), sem.canon_key(b)), nontrivial)
    ctx.count("oracle_equal" if truth else "oracle_unequal")
    ctx.count("mutation_pairs" if kind == "mut" else "wl_hard_pairs" if kind == "wl-hard" else "switch_pairs" if kind == "switch" else "independent_pairs")
    if any(None in d[1] for d in descs):
        ctx.count("with_placeholder")
    if len(a["atoms"]) >= 20:
        ctx.count("large_pairs")
    if case.get("family") == "bond-change-only":
        ctx.count("bond_change_only_pairs")
    if case.get("family") == "static-under-change":
        ctx.count("static_under_change_pairs")
    if kind == "mut":
        ctx.count(f"mut:{case['mut']}:{'equal' if truth else 'unequal'}")
    for name, f in (("a==b", lambda: ga == gb), ("b==a", lambda: gb == ga)):
        try:
            r = f()
        except Exception as e:  # noqa: BLE001
            ctx.violate(f"C02/eq-raises:{type(e).__name__}/{cls}/{kind}", f"{name} raised {e!r}", case)
            continue
        if r is truth:
            continue
        if truth:
            ctx.violate(f"C02/eq-miss/{cls}/{kind}", f"{name} is {r!r} but an isomorphism exists ({len(a['atoms'])} atoms)", case)
        else:
            why = case["mut"] if kind == "mut" else _why(a, b)
            if kind == "mut" and case["mut"] in ("swap_ligands", "invert", "flip_ez") and any(None in d[1] for d in descs):
                why += "+placeholder-present"
            ctx.violate(f"C02/eq-lie/{cls}/{why}", f"{name} is {r!r} but no structure/role/stereo preserving bijection exists ({len(a['atoms'])} atoms, {kind}, differs by: {why})", case)
    ctx.sample({"kind": kind, "class": cls, "mutation": case["mut"], "oracle_equal": truth, "a": case["a"], "b": case["b"]})
