"""C13 - RDKit export followed by import (by atom-map number) preserves structure and stereo."""
from __future__ import annotations

import random

from .. import gen, sem
from ..snapshot import DerivationWrong, build, build_case, pg_from_json, pg_to_json, snap
from . import c12

LEVEL = "exploration"
RULE = (
    "(i) MolGraphs and stereo-valid StereoMolGraphs from random valid decorations of random skeletons (every atom-centred "
    "class incl. lone-pair Tetrahedral, adjacent centres, coordination hubs), (ii) single-centre SP / TB / OH / Tet "
    "complexes with random orderings and parities, (iii) imported organic stereoisomers re-labelled with arbitrary ids; ids "
    "from [-2^31, 2^31) without 0 (id 0 and ids beyond 32 bit are generated at a low rate and keyed separately as limits of "
    "the transport). Observed: mol = g._to_rdmol(generate_bond_orders=b), g2 = RDMol2StereoMolGraph(use_atom_map_number="
    "True)(mol), snapshot of g before/after. Oracle: atoms, elements and bonds of g2 equal those of g; every atom-centred "
    "descriptor of g with specified parity is reproduced on the same atom as an equivalent descriptor of the same class; "
    "with regenerated bond orders the PlanarBond descriptors of isolated double bonds of neutral closed-shell molecules as "
    "well; the export leaves g unchanged. Non-trivial: >= 1 specified atom-centred descriptor (or isolated stereo double "
    "bond) and ids != RDKit indices; distinct by (descriptor-class multiset, skeleton invariants)."
)
ASSUMPTIONS = ["RDKit is only the transport: the same library code reads what it wrote", "descriptor semantics from sem.py"]
ANCHORS = [
    "stereomolgraph.graph2rdmol:stereo_mol_graph_to_rdmol",
    "stereomolgraph.graph2rdmol:mol_graph_to_rdmol",
    "stereomolgraph.graph2rdmol:set_bond_orders",
    "stereomolgraph.graph2rdmol:stereo_mol_graph_to_rdmol#CHI_SQUAREPLANAR",
    "stereomolgraph.graph2rdmol:stereo_mol_graph_to_rdmol#CHI_TRIGONALBIPYRAMIDAL",
    "stereomolgraph.graph2rdmol:stereo_mol_graph_to_rdmol#CHI_OCTAHEDRAL",
    "stereomolgraph.graph2rdmol:stereo_mol_graph_to_rdmol#rd_bond.SetStereoAtoms(",
    "stereomolgraph.rdmol2graph:RDMol2StereoMolGraph.smg_from_rdmol",
]
REQUIRED_ANCHORS = ANCHORS
REQUIRED = ["roundtrips", "molgraph_roundtrips", "desc:Tetrahedral", "desc:Tetrahedral+lone-pair", "desc:SquarePlanar", "desc:TrigonalBipyramidal", "desc:Octahedral", "ez_roundtrips", "ez_descriptors", "adjacent_centres", "exports_after_in_place_rewiring", "polynuclear_complexes"]
CASE_TIMEOUT = 120
EZ = ["F/C=C/Cl", "F/C=C\\Cl", "C/C=C/C", "C/C=C\\C", "C/C(F)=C(/Cl)C", "CC/C=C/CO", "OC/C=C\\CC", "C/C=C/CC/C=C\\C", "CC(/C=C/C)O", "Cl/C=C/CC(C)C", "C1CC/C=C\\CCC1", "C/C=C(/C)CC", "N/C=C/C", "CS/C=C\\C",
      # double bonds with a lone-pair end (placeholder descriptors), alone and next to an ordinary alkene elsewhere in the molecule
      "C/C=N/O", "C/C=N\\O", "C/C=N/C", "C/C=N\\C", "C/N=N/C", "C/N=N\\C", "O/N=C/CC/C=C/C", "O/N=C/CC/C=C\\C", "O/N=C\\CC/C=C/C", "O/N=C\\CC/C=C\\C",
      "C/N=C/CC/C=C/C", "C/C=C/CC/N=N/C", "C/C=C\\CC/N=N/C", "CC/C(CC/C=C/C)=N\\O", "C/C=C/CC/C=N/N", "F/C=C/CC/C=N/OC", "F/C=C\\CCC(/C)=N/O",
      # an isolated E/Z bond next to atoms the bond-order perception cannot pair with anything: counter-ions, a radical centre
      "[Cl-].C/C=C\\C[NH3+]", "[Br-].C/C=C/C[NH3+]", "[Cl-].[Cl-].[NH3+]C/C=C\\C[NH3+]", "C/C=C/C[CH2]", "[I-].C/C=C/C[N+](C)(C)C"]


def _ids(rng, n, family):
    if family == "zero":
        ids = rng.sample(range(1, 10**6), n)
        ids[rng.randrange(n)] = 0
        return ids
    if family == "big":
        ids = rng.sample(range(2**31, 2**31 + 10**6), n)
        return ids
    kind = rng.choice(["pos", "neg", "mixed", "small"])
    if kind == "pos":
        return rng.sample(range(1, 2**31 - 1), n)
    if kind == "neg":
        return rng.sample(range(-(2**31), -1), n)
    if kind == "mixed":
        return [x for x in rng.sample(range(-(10**6), 10**6), n + 1) if x != 0][:n]
    return rng.sample(range(1, 3 * n + 5), n)


def _random_isolated_ez(rng):
    """a stereoisomer of a random molecule (molgen) with >= 1 labelled E/Z double bond, all of whose multiple bonds are
    isolated: no atom of a multiple bond has a neighbour in another multiple bond or an aromatic ring"""
    from rdkit import Chem

    from .. import molgen

    for _ in range(30):
        m = molgen.random_mol(rng, n_heavy=(5, 14), p_double=0.3, p_triple=0.0, p_ring=0.35, elements=[6] * 8 + [7, 7, 8, 8, 16, 9, 17])
        if m is None or any(a.GetIsAromatic() for a in m.GetAtoms()):
            continue
        multi = [b for b in m.GetBonds() if b.GetBondType() != Chem.BondType.SINGLE]
        in_multi = {x for b in multi for x in (b.GetBeginAtomIdx(), b.GetEndAtomIdx())}
        ok = bool(multi)
        for b in multi:
            ends = (b.GetBeginAtomIdx(), b.GetEndAtomIdx())
            for x in ends:
                for nb in m.GetAtomWithIdx(x).GetNeighbors():
                    if nb.GetIdx() not in ends and nb.GetIdx() in in_multi:
                        ok = False
        if not ok:
            continue
        iso = molgen.stereoisomers(Chem.MolToSmiles(m), rng, max_isomers=6)
        iso = [s for s in iso if "/" in s or "\\" in s]
        if iso:
            return rng.choice(iso)
    return None


def gen_cases(ctx):
    rng = ctx.rng
    nsk = 0
    n = ctx.n(9600, 120000)
    for i in range(n):
        fam = i % 8
        idfam = "main"
        r = rng.random()
        if r < 0.02:
            idfam = "zero"
        elif r < 0.04:
            idfam = "big"
        if fam == 0:
            pg = gen.random_pg(rng, "MolGraph", n_range=(1, 12), alphabet=gen.WIDE, id_kind="range")
            kind = "molgraph"
        elif fam in (1, 2, 3):
            pg = gen.random_pg(rng, "StereoMolGraph", n_range=(3, 12), alphabet=gen.SMALL, p_stereo=0.9, p_none=rng.choice([0, 0, 0.15]), p_invalid=0.0, p_hub=0.35, id_kind="range", max_deg=rng.choice([4, 4, 5, 6]))
            if fam != 3:
                pg["bstereo"] = {}
            kind = "random-atom" if fam != 3 else "random-atom+bond"
        elif fam == 4:
            cls = rng.choice(sem.ATOM_CENTRED)
            nn = sem.NPOS[cls]
            pg = sem.pg_empty("StereoMolGraph")
            els = [rng.choice([26, 78, 15, 16, 6, 14])] + rng.sample([1, 9, 17, 35, 53, 8, 7, 16, 34], nn - 1)
            for k, z in enumerate(els):
                pg["atoms"][k] = {"atom_type": z}
            for k in range(1, nn):
                pg["bonds"][frozenset((0, k))] = {}
            lig = list(range(1, nn))
            rng.shuffle(lig)
            pg["astereo"][0] = (cls, (0, *lig), rng.choice(sem.PARITY_DOMAIN[cls]))
            kind = "complex"
            if rng.random() < 0.4:
                # polynuclear: two or three copies of the block, spelled identically (ids shifted), each with the same
                # or the opposite parity (a racemate / a meso dimer in one graph), optionally linked through ligands
                d0 = pg["astereo"][0]
                ncopy = rng.randint(2, 3)
                for c in range(1, ncopy):
                    off = c * nn
                    for k, z in enumerate(els):
                        pg["atoms"][off + k] = {"atom_type": z}
                    for k in range(1, nn):
                        pg["bonds"][frozenset((off, off + k))] = {}
                    par = d0[2]
                    if par is not None and sem.CHIRAL[cls] and rng.random() < 0.6:
                        par = -par
                    elif rng.random() < 0.3:
                        par = rng.choice(sem.PARITY_DOMAIN[cls])
                    pg["astereo"][off] = (cls, tuple(off + a for a in d0[1]), par)
                    if rng.random() < 0.5:
                        pg["bonds"][frozenset((off - nn + 1, off + 1))] = {}
                kind = "complex-polynuclear"
        elif fam == 6 and (i // 8) % 2 == 1:  # random molecule with several centres (molgen)
            from .. import molgen

            skel = molgen.random_smiles(rng, n_heavy=(4, 14), p_triple=0.0)
            iso = molgen.stereoisomers(skel, rng, max_isomers=4) if skel else []
            if not iso:
                continue
            yield {"kind": "organic", "smiles": iso[rng.randrange(len(iso))], "idfam": idfam, "iseed": rng.randrange(1 << 30), "bo": False, "random_molecule": True}
            continue
        elif fam in (5, 6):
            skel = c12.SKELETONS[(nsk * ctx.nshards + ctx.shard) % len(c12.SKELETONS)]
            nsk += 1
            iso = c12.isomers(skel)
            yield {"kind": "organic", "smiles": iso[rng.randrange(len(iso))], "idfam": idfam, "iseed": rng.randrange(1 << 30), "bo": False}
            continue
        elif (i // 8) % 3 == 2:  # random molecule whose double bonds are isolated from every other multiple bond
            smi = _random_isolated_ez(rng)
            if smi is None:
                continue
            yield {"kind": "ez", "smiles": smi, "idfam": idfam, "iseed": rng.randrange(1 << 30), "bo": True, "random_molecule": True}
            continue
        else:
            yield {"kind": "ez", "smiles": EZ[(i // 8) % len(EZ)], "idfam": idfam, "iseed": rng.randrange(1 << 30), "bo": True}
            continue
        ids = _ids(rng, len(pg["atoms"]), idfam)
        ordered = kind == "complex-polynuclear" and rng.random() < 0.6
        if ordered:
            # built systematically, as from a loop over the metal centres: ascending ids, atoms and bonds added in id
            # order - the copies are then spelled identically relative to the atom order as well
            ids = sorted(ids)
        pg = sem.pg_relabel(pg, dict(zip(sorted(pg["atoms"]), ids)))
        yield {"kind": kind, "pg": pg_to_json(pg), "idfam": idfam, "iseed": rng.randrange(1 << 30), "bo": False, "ordered": ordered}


def check_case(ctx, case):
    from stereomolgraph.graphs.mg import MolGraph
    from stereomolgraph.graphs.smg import StereoMolGraph
    from stereomolgraph.rdmol2graph import RDMol2StereoMolGraph

    rng = random.Random(case["iseed"])
    kind, idfam = case["kind"], case["idfam"]
    double_bonds = set()
    if kind in ("organic", "ez"):
        from rdkit import Chem

        m = Chem.AddHs(Chem.MolFromSmiles(case["smiles"]))
        g0 = StereoMolGraph.from_rdmol(m)
        ids = _ids(rng, m.GetNumAtoms(), idfam)
        ren = dict(zip(range(m.GetNumAtoms()), ids))
        pg = sem.pg_relabel(snap(g0), ren)
        double_bonds = {frozenset((ren[b.GetBeginAtomIdx()], ren[b.GetEndAtomIdx()])) for b in m.GetBonds() if b.GetBondType() == Chem.BondType.DOUBLE}
        if kind == "ez":
            # keep only what the statement promises for regenerated bond orders: E/Z of the double bonds
            pg["bstereo"] = {b: d for b, d in pg["bstereo"].items() if b in double_bonds}
    else:
        pg = pg_from_json(case["pg"])
    try:
        if case.get("ordered"):
            from ..snapshot import build

            g, via = build(pg), "direct-ordered"
        else:
            g, via = build_case(pg, case.get("bseed", len(pg["atoms"]) * 7919 + len(pg["bonds"])))
    except DerivationWrong as e:
        ctx.violate(f"C13/derived-input-differs/{e.via}", f"deriving the input graph: {e}", case)
        ctx.case()
        return
    ctx.count(f"via:{via}")
    before = snap(g)
    cls = pg["cls"]
    specified = {a: d for a, d in pg["astereo"].items() if d[2] is not None}
    moved = list(pg["atoms"]) != list(range(len(pg["atoms"])))
    ctx.case((sem.canon_key(pg), kind, idfam), (bool(specified) or kind == "ez") and moved)
    nb = sem.pg_neighbors(pg)
    if kind == "complex-polynuclear":
        ctx.count("polynuclear_complexes")
    if any(b <= set(specified) for b in pg["bonds"]):
        ctx.count("adjacent_centres")
    fkey = kind
    P = "C13" if idfam == "main" else f"C13/id-{idfam}"
    kw = {}
    if kind == "ez" and case["bo"] and cls != "MolGraph":
        # the options of the bond-order regeneration: the molecule's true total charge given or not, charged fragments
        # allowed or not - E/Z of the isolated double bonds has to survive each combination
        q = sum(a.GetFormalCharge() for a in m.GetAtoms())
        kw = [{}, {"charge": q}, {"charge": q, "allow_charged_fragments": True}, {"allow_charged_fragments": True}][case["iseed"] % 4]
        ctx.count("export_options:" + ("+".join(sorted(kw)) or "default"))
        fkey = kind + ("/" + "+".join(f"{k}={int(v)}" for k, v in sorted(kw.items())) if kw else "")
    try:
        mol, _ = g._to_rdmol(generate_bond_orders=case["bo"], **kw)
    except Exception as e:  # noqa: BLE001
        ctx.violate(f"{P}/export-raises:{type(e).__name__}/{cls}/{fkey}/bond-orders={int(case['bo'])}", f"_to_rdmol raised {e!r} ({len(pg['atoms'])} atoms)", case)
        return
    d0 = sem.pg_diff(before, snap(g), mode="exact")
    if d0:
        ctx.violate(f"{P}/export-modifies-graph/{cls}", f"_to_rdmol changed the exported graph: {d0[0]}", case)
    try:
        if cls == "MolGraph":
            g2 = MolGraph.from_rdmol(mol, use_atom_map_number=True)
            ctx.count("molgraph_roundtrips")
        else:
            g2 = RDMol2StereoMolGraph(use_atom_map_number=True)(mol)
    except Exception as e:  # noqa: BLE001
        ctx.violate(f"{P}/import-raises:{type(e).__name__}/{cls}/{fkey}", f"re-import by atom-map number raised {e!r}", case)
        return
    ctx.count("roundtrips")
    got = snap(g2)
    structure = {**sem.pg_copy(pg), "astereo": {}, "bstereo": {}}
    gstruct = {**sem.pg_copy(got), "astereo": {}, "bstereo": {}}
    d = sem.pg_diff(structure, gstruct, mode="exact", attrs=False)
    if d:
        part = d[0].split(":")[0].split("[")[0].split(" of ")[0].replace(" ", "-")
        ctx.violate(f"{P}/structure-differs/{cls}/{fkey}/{part}", f"export -> import: {'; '.join(d[:2])}", case)
        return
    for a, dsc in specified.items():
        name = dsc[0] + ("+lone-pair" if None in dsc[1] else "")
        ctx.count(f"desc:{name}")
        e = got["astereo"].get(a)
        if e is None or e[0] != dsc[0]:
            ctx.violate(f"{P}/descriptor-missing/{name}/{fkey}", f"atom {a}: {dsc} came back as {e}", case)
        elif not sem.desc_equiv(dsc, e):
            rel = "mirror-image" if sem.desc_equiv(sem.desc_invert(dsc), e) else "other-arrangement"
            ctx.violate(f"{P}/descriptor-wrong/{name}/{rel}/{fkey}", f"atom {a}: {dsc} came back as {e}", case)
    if kind == "ez":
        ctx.count("ez_roundtrips")
        for b, dsc in pg["bstereo"].items():
            if dsc[2] is None or dsc[0] != "PlanarBond":
                continue
            ctx.count("ez_descriptors")
            e = got["bstereo"].get(b)
            if e is None or e[0] != "PlanarBond":
                ctx.violate(f"{P}/ez-missing/{fkey}", f"double bond {sorted(b)}: {dsc} came back as {e} ({case['smiles']})", case)
            elif not sem.desc_equiv(dsc, e):
                ctx.violate(f"{P}/ez-wrong/{fkey}", f"double bond {sorted(b)}: {dsc} came back as {e} ({case['smiles']})", case)
    if kind == "ez" and idfam == "main":
        _export_again_after_rewiring(ctx, g, case)
    ctx.sample({"kind": kind, "ids": idfam, "graph": pg_to_json(pg) if len(pg["atoms"]) <= 10 else case.get("smiles")})


def _bond_types(mol):
    return {frozenset((b.GetBeginAtom().GetAtomMapNum(), b.GetEndAtom().GetAtomMapNum())): str(b.GetBondType()) for b in mol.GetBonds()}


def _export_again_after_rewiring(ctx, g, case):
    """history: the SAME graph object is exported, rewired in place by a 1,3-hydrogen shift (atom and bond counts
    unchanged, the double bond moves) and exported again; the second export must be that of the graph as it is now,
    i.e. equal to the export of a freshly built graph with the same content"""
    S = snap(g)
    nb = sem.pg_neighbors(S)
    z = lambda a: S["atoms"][a]["atom_type"]
    shift = None
    for b in sorted(S["bstereo"], key=lambda x: sorted(x, key=repr)):
        for c1, c2 in (tuple(b), tuple(b)[::-1]):
            for c3 in sorted(nb[c2] - {c1}, key=repr):
                hs = [h for h in nb[c3] if z(h) == 1]
                if z(c1) == 6 and z(c2) == 6 and z(c3) == 6 and len(nb[c3]) == 4 and len(nb[c1]) == 3 and len(nb[c2]) == 3 and hs:
                    shift = (c1, c2, c3, sorted(hs, key=repr)[0])
                    break
            if shift:
                break
        if shift:
            break
    if not shift:
        return
    c1, c2, c3, h = shift
    try:
        g.delete_bond_stereo((c1, c2))
        if c3 in S["astereo"]:
            g.delete_atom_stereo(c3)
        g.remove_bond(c3, h)
        g.add_bond(c1, h)
        mol2, _ = g._to_rdmol(generate_bond_orders=True)
        fresh, _ = build(snap(g))._to_rdmol(generate_bond_orders=True)
    except Exception as e:  # noqa: BLE001
        ctx.violate(f"C13/export-raises:{type(e).__name__}/after-in-place-rewiring", f"{case.get('smiles')}: {e!r}", case)
        return
    ctx.count("exports_after_in_place_rewiring")
    a, b = _bond_types(mol2), _bond_types(fresh)
    if a != b:
        k = next(k for k in set(a) | set(b) if a.get(k) != b.get(k))
        ctx.violate("C13/export-differs-from-fresh-graph/after-in-place-rewiring", f"{case.get('smiles')}: after a 1,3-hydrogen shift in place the second export writes bond {sorted(k)} as {a.get(k)}, the export of a freshly built equal graph as {b.get(k)}", case)
