"""C07 - perception from coordinates depends only on the 3D shape."""
from __future__ import annotations

import glob
import os
import math
import random

import numpy as np

from .. import geom, sem
from ..snapshot import snap

LEVEL = "exploration"
RULE = (
    "geometries in general position: idealised tetrahedral / square-planar / trigonal-bipyramidal / octahedral centres "
    "with pairwise distinct monoatomic ligands at covalent bond lengths plus Gaussian noise, planar-bond (E/Z) templates, "
    "two-centre templates, RDKit-embedded organic molecules, the repository's XYZ files, and SN2-like reactant/TS/product "
    "triples; transformations: proper rotation + translation, atom permutation of the input order, both, reflection, all "
    "three; for from_geometries the three geometries are moved independently. Oracle (labelled, exact): snapshot of "
    "from_geometry(T(geo)) == relabel(snapshot of from_geometry(geo), permutation) for proper T and == its reference "
    "mirror image for a reflection (descriptors compared by geometric equivalence), every descriptor only names the "
    "centre's bonded neighbours, is_stereo_valid(); for templates the perceived class and arrangement must be the one the "
    "template was built with (up to the global handedness convention). Inputs failing the general-position filter are "
    "counted, not judged. Non-trivial: >= 1 perceived descriptor and a non-identity transformation; distinct by (source, "
    "transform kind, permutation)."
)
ASSUMPTIONS = [
    "general-position margins: 5 % around bonding cut-offs, 20 % around the 1.0 A planarity threshold for every apex, 10 deg for the axial-pair / ring-order decisions, |cos| > 0.2 for the planar-bond orientation",
    "RDKit ETKDG embedding only supplies coordinates",
]
ANCHORS = [
    "stereomolgraph.xyz2graph:_tetrahedral_from_coords",
    "stereomolgraph.xyz2graph:_square_planar_from_coords",
    "stereomolgraph.xyz2graph:_trigonal_bipyramidal_from_coords",
    "stereomolgraph.xyz2graph:_octahedral_from_coords",
    "stereomolgraph.xyz2graph:_planar_bond_from_coords",
    "stereomolgraph.coords:are_planar",
    "stereomolgraph.coords:handedness",
    "stereomolgraph.coords:BondsFromDistance.array",
    "stereomolgraph.graphs.scrg:StereoCondensedReactionGraph.from_geometries",
]
REQUIRED_ANCHORS = ANCHORS
REQUIRED = ["geometries", "transforms", "kind:reflect", "kind:permute", "kind:rotate", "template:Tetrahedral", "template:SquarePlanar", "template:TrigonalBipyramidal", "template:Octahedral", "template:planar", "embedded_molecules", "repo_xyz", "reaction_triples", "template_class_checked", "reused_switching_function_perceptions"]
CASE_TIMEOUT = 120
KINDS = ("rotate", "permute", "rot+perm", "reflect", "all", "translate")
SMILES = [
    "C[C@H](O)F", "C[C@@H](N)C(=O)O", "F/C=C/Cl", "F/C=C\\Cl", "C[C@H]1CC[C@@H](C)CC1", "CC(=O)N", "c1ccccc1", "C/C=C/C", "OC[C@H](O)[C@@H](O)C=O",
    "N[C@@H](CS)C(=O)O", "C1CC1", "CC#N", "C[S@](=O)CC", "ClC(Br)=C(F)I", "C[C@H](Cl)[C@@H](Br)C", "c1ccncc1", "C=CC=C", "CC(C)(C)O", "O=C=O", "C[N+](C)(C)C",
    "C1=CCCCC1", "CN=C", "FC(F)(F)C(Cl)Br", "C[C@]12CC[C@H]1C2", "OC(=O)/C=C/C(=O)O", "CSC", "CP(C)C", "C[Si](C)(C)C", "NC(N)=O", "c1ccc2ccccc2c1",
    # strained small rings (a ring atom is a substituent of both ends of the double bond; exocyclic angles of ~150 degrees)
    "C1=CC1", "CC1=CC1", "CC1(C)C=C1", "C[C@]1(CC)C=C1C", "O=C1C=C1", "C1=CCC1", "C=C1CC1", "CC1=C(C)C1", "C1C2C1C2", "CC1=NC1C", "C12C3C4C1C5C2C3C45", "C1=CC2CC2C1", "FC1=CC1Cl",
]
DATA = ["tests/unit/data/water.xyz", "tests/unit/data/caffeine.xyz", "tests/unit/data/PCl5.xyz", "tests/unit/data/fluoro_chloro_bromomethane_r.xyz", "tests/unit/data/fluoro_chloro_bromomethane_s.xyz", "tests/unit/data/(E)-(4S)-3,4-Dichlor-2-pentene.xyz", "tests/unit/data/(Z)-(4R)-3,4-Dichlor-2-pentene.xyz", "tests/unit/data/methylamine_phosgenation_trans_r.xyz", "tests/unit/data/methylamine_phosgenation_trans_p.xyz", "tests/unit/data/methylamine_phosgenation_trans_ts.xyz", "examples/react.xyz", "examples/prod.xyz", "examples/TS_cis.xyz", "examples/TS_trans.xyz"]
TRIPLES = [("tests/unit/data/fluoro_chloro_bromomethane_r.xyz", "tests/unit/data/fluoro_chloro_bromomethane_s.xyz", "tests/unit/data/fluoro_chloro_bromomethane_ts.xyz"), ("tests/unit/data/methylamine_phosgenation_trans_r.xyz", "tests/unit/data/methylamine_phosgenation_trans_p.xyz", "tests/unit/data/methylamine_phosgenation_trans_ts.xyz"), ("examples/react.xyz", "examples/prod.xyz", "examples/TS_cis.xyz"), ("examples/react.xyz", "examples/prod.xyz", "examples/TS_trans.xyz")]


def _repo():
    return os.environ.get("SMG_REPO", "/repo")


def gen_cases(ctx):
    rng = ctx.rng
    n = ctx.n(6000, 60000)
    srcs = ["Tetrahedral", "SquarePlanar", "TrigonalBipyramidal", "Octahedral", "planar", "two", "embed", "embed", "xyz", "triple"]
    for i in range(n):
        src = srcs[i % len(srcs)]
        nk = 4 if ctx.tier == "quick" else 8
        yield {"src": src, "gseed": rng.randrange(1 << 30), "kinds": [KINDS[(i // len(srcs) + k) % len(KINDS)] for k in range(nk)], "idx": i // len(srcs)}


def _make(case):
    """returns (elements, X, template-info) or None"""
    rng = random.Random(case["gseed"])
    src = case["src"]
    if src in sem.ATOM_CENTRED:
        els, X, flipped = geom.centre_template(rng, src, noise=rng.choice([0.0, 0.02, 0.05]))
        info = {"cls": src, "flipped": flipped}
        if rng.random() < 0.4:
            # the complex sits in a larger geometry (a benzene molecule 9-12 A away): after reordering, the centre and
            # its ligands carry large atom indices (container iteration orders depend on the magnitude of the ids)
            k = np.arange(6) * math.pi / 3
            ring_c = np.stack([1.39 * np.cos(k), 1.39 * np.sin(k), np.zeros(6)], axis=1)
            ring_h = np.stack([2.48 * np.cos(k), 2.48 * np.sin(k), np.zeros(6)], axis=1)
            shift = geom.random_rotation(rng) @ np.array([rng.uniform(9, 12), 0.0, 0.0])
            spect = np.concatenate([ring_c, ring_h]) @ geom.random_rotation(rng).T + np.asarray(X).mean(axis=0) + shift
            els = list(els) + [6] * 6 + [1] * 6
            X = np.concatenate([np.asarray(X, dtype=float), spect])
            info["spectator"] = "benzene"
        return els, X, info
    if src == "planar":
        els, X = geom.planar_bond_template(rng, noise=rng.choice([0.0, 0.02]), twist_deg=rng.choice([0, 0, 5, -8]))
        return els, X, {"cls": "PlanarBond"}
    if src == "two":
        els, X = geom.two_centre_template(rng)
        return els, X, None
    if src == "embed":
        from rdkit import Chem
        from rdkit.Chem import AllChem

        if case["idx"] % 4 == 3:  # random molecule
            from .. import molgen

            smi = molgen.random_smiles(random.Random(case["gseed"] + 17), n_heavy=(4, 12), p_triple=0.0, bredt=True)
            if smi is None:
                return None
        else:
            smi = SMILES[(case["idx"] - case["idx"] // 4) % len(SMILES)]
        m = Chem.AddHs(Chem.MolFromSmiles(smi))
        if AllChem.EmbedMolecule(m, randomSeed=case["gseed"] % 100000) != 0:
            return None
        if rng.random() < 0.5:
            try:
                AllChem.MMFFOptimizeMolecule(m, maxIters=200)
            except Exception:  # noqa: BLE001
                pass
        X = np.array(m.GetConformer().GetPositions(), dtype=float)
        return [a.GetAtomicNum() for a in m.GetAtoms()], X, {"smiles": smi}
    if src == "coords":  # explicit coordinates (committed witnesses)
        return list(case["els"]), np.array(case["X"], dtype=float), {"note": case.get("note", "")}
    if src == "xyz":
        from stereomolgraph.coords import Geometry

        f = DATA[case["idx"] % len(DATA)]
        g = Geometry.from_xyz_file(os.path.join(_repo(), f))
        return list(g.atom_types), np.array(g.coords, dtype=float), {"file": f}
    return None


def _from_geometry(els, X):
    from stereomolgraph.coords import Geometry
    from stereomolgraph.graphs.smg import StereoMolGraph

    return StereoMolGraph.from_geometry(Geometry(els, X))


def _valid_wrt_bonds(ctx, g, case, tag):
    S = snap(g)
    nb = sem.pg_neighbors(S)
    for a, d in S["astereo"].items():
        if any(x is not None and x not in nb.get(a, ()) for x in d[1][1:]) or d[1][0] != a:
            ctx.violate(f"C07/descriptor-names-non-neighbours/{d[0]}", f"{tag}: descriptor {d} of atom {a} names atoms that are not its bonded neighbours {sorted(nb.get(a, ()))}", case)
            return False
    for b, d in S["bstereo"].items():
        x, y = d[1][2], d[1][3]
        if frozenset((x, y)) != b or any(q is not None and q not in nb[x] for q in d[1][:2]) or any(q is not None and q not in nb[y] for q in d[1][4:]):
            ctx.violate(f"C07/descriptor-names-non-neighbours/{d[0]}", f"{tag}: bond descriptor {d} names atoms that are not bonded to its ends", case)
            return False
    try:
        if not g.is_stereo_valid():
            ctx.violate("C07/not-stereo-valid", f"{tag}: is_stereo_valid() is False", case)
            return False
    except Exception as e:  # noqa: BLE001
        ctx.violate(f"C07/is_stereo_valid-raises:{type(e).__name__}", f"{tag}: {e!r}", case)
        return False
    return True


def check_case(ctx, case):
    if case["src"] == "triple":
        return _triple(ctx, case)
    made = _make(case)
    if made is None:
        ctx.count("filtered:embedding-failed")
        return
    els, X, info = made
    if not geom.general_position(els, X):
        ctx.count("filtered:not-general-position")
        return
    ctx.count("geometries")
    src = case["src"]
    if src in sem.ATOM_CENTRED or src == "planar":
        ctx.count(f"template:{src}")
    if src == "embed":
        ctx.count("embedded_molecules")
    if src == "xyz":
        ctx.count("repo_xyz")
    try:
        g0 = _from_geometry(els, X)
    except Exception as e:  # noqa: BLE001
        ctx.violate(f"C07/from_geometry-raises:{type(e).__name__}/{src if src in sem.ATOM_CENTRED else 'molecule'}", f"from_geometry raised {e!r} ({len(els)} atoms, source {src})", case)
        return
    S0 = snap(g0)
    if not _valid_wrt_bonds(ctx, g0, case, "original order"):
        return
    n_desc = len(S0["astereo"]) + len(S0["bstereo"])
    # template: perceived class / arrangement
    if info and info.get("cls") in sem.ATOM_CENTRED:
        ctx.count("template_class_checked")
        d = S0["astereo"].get(0)
        cls = info["cls"]
        if d is None or d[0] != cls:
            ctx.violate(f"C07/template-class-wrong/{cls}", f"{cls} template perceived as {d}", case)
            return
        n = sem.NPOS[cls]
        tmpl = (cls, tuple(range(n)), d[2])
        if not (sem.desc_equiv(d, tmpl) or sem.desc_equiv(d, sem.desc_invert(tmpl))):
            ctx.violate(f"C07/template-arrangement-wrong/{cls}", f"{cls} template (ligand k at figure position k) perceived as {d}: trans / axial / ring relations differ", case)
            return
    if info and info.get("cls") == "PlanarBond":
        ctx.count("template_class_checked")
        d = S0["bstereo"].get(frozenset((0, 1)))
        tmpl = ("PlanarBond", (2, 3, 0, 1, 4, 5), 0)
        if d is None or d[0] != "PlanarBond" or not sem.desc_equiv(d, tmpl):
            ctx.violate("C07/template-arrangement-wrong/PlanarBond", f"planar template (2 cis 4) perceived as {d}", case)
            return
    rng = random.Random(case["gseed"] + 1)
    for kind in case["kinds"]:
        Y, perm, mirrored = geom.transform(rng, X, kind)
        els2 = [els[p] for p in perm]
        ctx.count("transforms")
        ctx.count(f"kind:{kind}")
        moved = kind != "translate" or True
        ctx.case((src, case["idx"] if src in ("embed", "xyz") else case["gseed"], kind, tuple(perm[:6])), n_desc >= 1 and moved)
        try:
            g1 = _from_geometry(els2, Y)
        except Exception as e:  # noqa: BLE001
            ctx.violate(f"C07/from_geometry-raises:{type(e).__name__}/{kind}", f"from_geometry raised {e!r} after {kind}", case)
            continue
        if not _valid_wrt_bonds(ctx, g1, case, f"after {kind}"):
            continue
        # new index k holds old atom perm[k]  =>  old id -> new id
        old2new = {old: new for new, old in enumerate(perm)}
        want = sem.pg_relabel(S0, old2new)
        if mirrored:
            want = sem.pg_mirror(want)
        got = snap(g1)
        diff = sem.pg_diff(want, got, mode="equiv", attrs=False)
        if diff:
            part = diff[0].split(":")[0].split("[")[0].split(" of ")[0].replace(" ", "-")
            klass = ""
            for key in ("astereo", "bstereo"):
                for k2, dd in want[key].items():
                    gd = got[key].get(k2)
                    if gd is None or not sem.desc_equiv(dd, gd):
                        klass = dd[0]
                for k2, dd in got[key].items():
                    if k2 not in want[key]:
                        klass = klass or dd[0]
            amb = _order_dependent_planarity(want, got, X, perm)
            if amb:
                ctx.count("order_dependent_planarity_cases")
                ctx.violate(f"C07/planarity-depends-on-atom-order/{amb}", f"{src} geometry {info}, {kind}: {'; '.join(diff[:2])} - the same four points are within 1 A of a plane seen from one apex and not from another; are_planar() only evaluates the last point of each quadruple in input order", case)
                continue
            ctx.violate(f"C07/not-invariant/{kind if kind in ('reflect',) else ('mirror+' if mirrored else '') + 'rigid-or-permutation'}/{part}/{klass or 'bonds'}", f"{src} geometry, {kind}: {'; '.join(diff[:2])}", case)
    if len(els) <= 40 and case["gseed"] % 3 == 0:
        _reused_switching_function(ctx, case, els, X, rng)
    ctx.sample({"source": src, "info": info, "n_atoms": len(els), "descriptors": n_desc, "kinds": case["kinds"]})


def _reused_switching_function(ctx, case, els, X, rng):
    """the caller's own BondsFromDistance object, used for several perceptions with its cut-off table edited in between
    (a stretched bond to be counted, a contact not to be counted) and the atoms given in two orders: every graph must be
    the one a brand-new object with the same table yields for the same input (no geometric tolerance involved: same
    numbers, same rule)"""
    from stereomolgraph.coords import BondsFromDistance, Geometry
    from stereomolgraph.graphs.smg import StereoMolGraph
    from stereomolgraph.periodic_table import PERIODIC_TABLE

    sf = BondsFromDistance()
    edits = []

    def perceive(f, e, Y):
        # (an edited table can create coordination patterns far from every polyhedron, for which perception raises;
        # then the long-lived object has to raise alike)
        try:
            return snap(StereoMolGraph.from_geometry(Geometry(e, Y), f))
        except Exception as ex:  # noqa: BLE001
            return {"raised": type(ex).__name__}

    def fresh():
        f = BondsFromDistance()
        for key, val in edits:
            f.connectivity_cutoff[key] = val
        return f

    n = len(els)
    perm = list(range(n))
    rng.shuffle(perm)
    orders = [("same-order", list(els), X), ("reordered", [els[p] for p in perm], X[perm])]
    try:
        perceive(sf, els, X)  # first use with the default table
        i, j = rng.sample(range(n), 2)
        val = float(sf.connectivity_cutoff[(PERIODIC_TABLE[els[i]], PERIODIC_TABLE[els[j]])]) * rng.choice([0.5, 0.5, 0.8, 1.3, 1.7, 0.0])
        keys = [(PERIODIC_TABLE[els[i]], PERIODIC_TABLE[els[j]]), (PERIODIC_TABLE[els[j]], PERIODIC_TABLE[els[i]])]
        if rng.random() < 0.4:  # one orientation stored, the other answered by the table's symmetric lookup
            sf, keys = BondsFromDistance(), keys[:1]
        for key in keys:
            sf.connectivity_cutoff[key] = val
            edits.append((key, val))
        bonds_seen = {}
        for tag, e, Y in orders:
            ctx.count("reused_switching_function_perceptions")
            got, want = perceive(sf, e, Y), perceive(fresh(), e, Y)
            if "raised" in got or "raised" in want:
                d = [] if got == want else [f"new object: {want.get('raised', 'a graph')}, used object: {got.get('raised', 'a graph')}"]
                ctx.count("reused_switching_function_both_raise")
            else:
                d = sem.pg_diff(want, got, mode="exact")
            if "raised" not in got:
                back = {new: old for new, old in enumerate(perm)} if tag == "reordered" else {k: k for k in range(n)}
                bonds_seen[tag] = {frozenset(back[a] for a in b) for b in got["bonds"]}
            if d:
                ctx.violate(f"C07/depends-on-history-of-switching-function/{tag}", f"a BondsFromDistance object used before and then given another cut-off for elements {els[i]}/{els[j]} yields a different graph than a new object with the same table ({tag}): {d[0]}", case)
                return
        if len(bonds_seen) == 2 and bonds_seen["same-order"] != bonds_seen["reordered"]:
            diffb = sorted(map(sorted, bonds_seen["same-order"] ^ bonds_seen["reordered"]))[:3]
            ctx.violate("C07/not-invariant/permutation/bonds/edited-cutoff-table", f"with the cut-off for elements {els[i]}/{els[j]} set to {val!r} ({len(keys)} key order(s) stored) the bonds depend on the atom order: {diffb}", case)
    except Exception as e:  # noqa: BLE001
        ctx.violate(f"C07/from_geometry-raises:{type(e).__name__}/reused-switching-function", f"{e!r}", case)


def _order_dependent_planarity(want, got, X, perm):
    """Mechanism classifier for the recorded finding. Returns a label when (i) the atoms were reordered, (ii) the two
    perceptions have the same bonds and differ ONLY in items whose class decision is a planarity test - a
    four-coordinate centre that is Tetrahedral in one and SquarePlanar in the other, or a PlanarBond present in one
    and absent in the other - and (iii) for every such item the harness's own geometry computation shows that the
    planarity of its points depends on which apex is evaluated. Anything else keeps the generic key."""
    if list(perm) == list(range(len(perm))):
        return None
    if set(want["bonds"]) != set(got["bonds"]):
        return None
    new2old = {new: old for new, old in enumerate(perm)}
    labels = set()
    for k in set(want["astereo"]) | set(got["astereo"]):
        a, b = want["astereo"].get(k), got["astereo"].get(k)
        if a is not None and b is not None and sem.desc_equiv(a, b):
            continue
        if a is None or b is None or {a[0], b[0]} != {"Tetrahedral", "SquarePlanar"}:
            return None
        lig = [new2old[x] for x in a[1][1:]]
        if sorted(lig) != sorted(new2old[x] for x in b[1][1:]) or not geom.straddles(X, lig):
            return None
        labels.add("Tetrahedral-vs-SquarePlanar")
    for k in set(want["bstereo"]) | set(got["bstereo"]):
        a, b = want["bstereo"].get(k), got["bstereo"].get(k)
        if a is not None and b is not None and sem.desc_equiv(a, b):
            continue
        d = a if b is None else b if a is None else None
        if d is None or d[0] != "PlanarBond" or None in d[1]:
            return None
        if not geom.straddles(X, [new2old[x] for x in d[1]]):
            return None
        labels.add("PlanarBond-present-vs-absent")
    return "+".join(sorted(labels)) if labels else None


def _bondset(els, X):
    r = geom.rcov()
    out = set()
    for i in range(len(els)):
        for j in range(i + 1, len(els)):
            if np.linalg.norm(X[i] - X[j]) < 1.2 * (r[els[i]] + r[els[j]]):
                out.add(frozenset((i, j)))
    return out


def _triple(ctx, case):
    from stereomolgraph.coords import Geometry
    from stereomolgraph.graphs.scrg import StereoCondensedReactionGraph as SCRG

    rng = random.Random(case["gseed"])
    if case["idx"] % 3 == 0:
        fr, fp, ft = TRIPLES[(case["idx"] // 3) % len(TRIPLES)]
        gs = [Geometry.from_xyz_file(os.path.join(_repo(), f)) for f in (fr, fp, ft)]
        els = list(gs[0].atom_types)
        Xs = [np.array(g.coords, dtype=float) for g in gs]
        src = "repo-triple"
    else:
        els, R_, T_, P_ = geom.sn2_triple(rng)
        Xs = [R_, P_, T_]
        want_b = [{frozenset((0, 1)), *(frozenset((0, k)) for k in (3, 4, 5))}, {frozenset((0, 2)), *(frozenset((0, k)) for k in (3, 4, 5))}, {frozenset((0, 1)), frozenset((0, 2)), *(frozenset((0, k)) for k in (3, 4, 5))}]
        if [_bondset(els, X) for X in Xs] != want_b:
            ctx.count("filtered:sn2-template-unexpected-contacts")
            return
        src = "sn2-template"
    if not all(geom.general_position(els, X) for X in Xs):
        ctx.count("filtered:not-general-position")
        return
    ctx.count("reaction_triples")
    try:
        g0 = SCRG.from_geometries(Geometry(els, Xs[0]), Geometry(els, Xs[1]), Geometry(els, Xs[2]))
    except Exception as e:  # noqa: BLE001
        ctx.violate(f"C07/from_geometries-raises:{type(e).__name__}/{src}", f"from_geometries raised {e!r}", case)
        return
    S0 = snap(g0)
    S0["achange"] = {k: v for k, v in S0["achange"].items() if v}
    S0["bchange"] = {k: v for k, v in S0["bchange"].items() if v}
    n_desc = len(S0["astereo"]) + len(S0["bstereo"]) + len(S0["achange"]) + len(S0["bchange"])
    for kind in case["kinds"]:
        perm = list(range(len(els)))
        if kind in ("permute", "rot+perm", "all"):
            rng.shuffle(perm)
        mirrored = kind in ("reflect", "all")
        Ys = []
        nrm = np.array([rng.gauss(0, 1) for _ in range(3)])
        nrm /= np.linalg.norm(nrm)
        for X in Xs:
            Y = X.copy()
            if kind in ("rotate", "rot+perm", "all", "translate"):
                Y = Y @ geom.random_rotation(rng).T + np.array([rng.uniform(-20, 20) for _ in range(3)])  # each geometry moved independently
            if mirrored:
                Y = Y - 2 * np.outer(Y @ nrm, nrm)
            Ys.append(Y[perm])
        els2 = [els[p] for p in perm]
        ctx.count("transforms")
        ctx.count(f"kind:{kind}")
        ctx.case((src, case["gseed"], kind, tuple(perm)), n_desc >= 1)
        try:
            g1 = SCRG.from_geometries(Geometry(els2, Ys[0]), Geometry(els2, Ys[1]), Geometry(els2, Ys[2]))
        except Exception as e:  # noqa: BLE001
            ctx.violate(f"C07/from_geometries-raises:{type(e).__name__}/{kind}", f"from_geometries raised {e!r} after {kind}", case)
            continue
        old2new = {old: new for new, old in enumerate(perm)}
        want = sem.pg_relabel(S0, old2new)
        if mirrored:
            want = sem.pg_mirror(want)
        got = snap(g1)
        got["achange"] = {k: v for k, v in got["achange"].items() if v}
        got["bchange"] = {k: v for k, v in got["bchange"].items() if v}
        diff = sem.pg_diff(want, got, mode="equiv", attrs=False)
        if diff:
            part = diff[0].split(":")[0].split("[")[0].split(" of ")[0].replace(" ", "-")
            ctx.violate(f"C07/reaction-not-invariant/{'mirror' if mirrored else 'rigid-or-permutation'}/{part}", f"{src}, {kind}: {'; '.join(diff[:2])}", case)
    ctx.sample({"source": src, "n_atoms": len(els), "descriptors_and_changes": n_desc})
