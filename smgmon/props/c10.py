"""C10 - derived graphs share no mutable state with their source."""
from __future__ import annotations

import random

from .. import gen, model, sem
from ..snapshot import CLASS_NAMES, DerivationWrong, REACTION, STEREO, build, build_case, classes, pg_from_json, pg_to_json, raw_views, snap, views_equal

LEVEL = "exploration"
RULE = (
    "source graphs of all four classes with atom and bond attributes, descriptors and stereo changes x derivations copy(), "
    "copy-construction (same class and across classes), relabel_atoms(copy=True) with identity / partial / total mapping, "
    "subgraph (all atoms / subset), compose([g]) and compose([g, h]), enantiomer, reverse_reaction, reactant, product, JSON "
    "round trip x follow-up edits by every public mutator (attributes of every atom and bond for graphs <= 6 atoms, sampled "
    "above; descriptor and change replacement/deletion; structure edits; in-place relabelling) applied first to the derived "
    "and, on a fresh pair, to the source; the raw snapshot of the untouched side is taken before and after every single "
    "edit and must not change. Non-trivial: the edit changed the edited side; distinct by (class, derivation, mutator, "
    "target kind). A structural alias scan (shared dict/set/list objects reachable from both) is reported as a diagnostic."
)
ASSUMPTIONS = ["attribute values are immutable scalars (sharing of user-owned mutable values is not judged)"]
ANCHORS = [
    "stereomolgraph.graphs.mg:MolGraph.copy",
    "stereomolgraph.graphs.mg:MolGraph.relabel_atoms",
    "stereomolgraph.graphs.mg:MolGraph.subgraph",
    "stereomolgraph.graphs.mg:MolGraph.compose",
    "stereomolgraph.graphs.smg:StereoMolGraph.copy",
    "stereomolgraph.graphs.smg:StereoMolGraph.subgraph",
    "stereomolgraph.graphs.smg:StereoMolGraph.compose",
    "stereomolgraph.graphs.smg:StereoMolGraph.enantiomer",
    "stereomolgraph.graphs.scrg:StereoCondensedReactionGraph.copy",
    "stereomolgraph.graphs.scrg:StereoCondensedReactionGraph.compose",
    "stereomolgraph.graphs.scrg:StereoCondensedReactionGraph.reactant",
    "stereomolgraph.graphs.scrg:StereoCondensedReactionGraph.reverse_reaction",
    "stereomolgraph.graphs.crg:CondensedReactionGraph.reactant",
    "stereomolgraph.graphs.crg:CondensedReactionGraph.reverse_reaction",
    "stereomolgraph.experimental:JSONHandler.json_deserialize",
]
REQUIRED_ANCHORS = ANCHORS
DERIVATIONS = ["copy", "construct", "construct-up", "construct-down", "relabel-identity", "relabel-partial", "relabel-total", "subgraph-all", "subgraph-part", "compose-one", "compose-two", "enantiomer", "reverse_reaction", "reactant", "product", "json"]
REQUIRED = ["edits_effective", "pairs"] + [f"derivation:{d}" for d in DERIVATIONS]
CASE_TIMEOUT = 120
_UP = {"MolGraph": "StereoMolGraph", "StereoMolGraph": "StereoCondensedReactionGraph", "CondensedReactionGraph": "StereoCondensedReactionGraph", "StereoCondensedReactionGraph": None}
_DOWN = {"MolGraph": None, "StereoMolGraph": "MolGraph", "CondensedReactionGraph": "MolGraph", "StereoCondensedReactionGraph": "StereoMolGraph"}


def applicable(cls, d):
    if d == "construct-up":
        return _UP[cls] is not None
    if d == "construct-down":
        return _DOWN[cls] is not None
    if d == "enantiomer":
        return cls in STEREO
    if d in ("reverse_reaction", "reactant", "product"):
        return cls in REACTION
    return True


def derive(g, d, rng, other):
    C = classes()
    cls = type(g).__name__
    ids = list(g.atoms)
    if d == "copy":
        return g.copy()
    if d == "construct":
        return type(g)(g)
    if d == "construct-up":
        return C[_UP[cls]](g)
    if d == "construct-down":
        return C[_DOWN[cls]](g)
    if d == "relabel-identity":
        return g.relabel_atoms({a: a for a in ids}, copy=True)
    if d == "relabel-partial":
        sub = ids[: max(1, len(ids) // 2)]
        return g.relabel_atoms({a: 5000 + i for i, a in enumerate(sub)}, copy=True)
    if d == "relabel-total":
        return g.relabel_atoms({a: 7000 + i for i, a in enumerate(ids)}, copy=True)
    if d == "subgraph-all":
        return g.subgraph(list(ids))
    if d == "subgraph-part":
        k = max(1, (2 * len(ids)) // 3)
        return g.subgraph(ids[:k])
    if d == "compose-one":
        return type(g).compose([g])
    if d == "compose-two":
        return type(g).compose([other, g])
    if d == "enantiomer":
        return g.enantiomer()
    if d == "reverse_reaction":
        return g.reverse_reaction()
    if d == "reactant":
        return g.reactant()
    if d == "product":
        return g.product()
    if d == "json":
        from stereomolgraph.experimental import JSONHandler

        return JSONHandler.json_deserialize(JSONHandler.json_serialize(g))
    raise ValueError(d)


def edits_for(x, rng, exhaustive):
    """ordered list of ops (model format) against the current snapshot of x"""
    S = snap(x)
    cls = S["cls"]
    atoms = sorted(S["atoms"], key=repr)
    bonds = sorted(S["bonds"], key=lambda b: sorted(map(repr, b)))
    pick = (lambda lst, k: lst) if exhaustive else (lambda lst, k: rng.sample(lst, min(k, len(lst))))
    ops = []
    for a in pick(atoms, 3):
        ops.append(("atom-attr-set", ["set_atom_attribute", a, "label", "EDITED"]))
        ops.append(("atom-attr-new", ["set_atom_attribute", a, "fresh_key", 1]))
        for k in list(S["atoms"][a]):
            if k != "atom_type":
                ops.append(("atom-attr-del", ["delete_atom_attribute", a, k]))
        ops.append(("atom-type", ["set_atom_attribute", a, "atom_type", "Xe" if S["atoms"][a]["atom_type"] != 54 else "Kr"]))
    for b in pick(bonds, 3):
        x1, x2 = sorted(b, key=repr)
        ops.append(("bond-attr-set", ["set_bond_attribute", x1, x2, "bond_order", 99]))
        ops.append(("bond-attr-new", ["set_bond_attribute", x1, x2, "fresh_key", 1]))
        for k in list(S["bonds"][b]):
            if k != "reaction":
                ops.append(("bond-attr-del", ["delete_bond_attribute", x1, x2, k]))
        if cls in REACTION:
            cur = S["bonds"][b].get("reaction")
            new = "FORMED" if cur != "FORMED" else "BROKEN"
            ops.append(("bond-role-set", ["set_bond_attribute", x1, x2, "reaction", {"$change": new}]))
            ops.append(("bond-role-del", ["delete_bond_attribute", x1, x2, "reaction"]))
            ops.append(("bond-readd-with-role", ["add_fleeting_bond", x1, x2]))
    if cls in STEREO:
        for a, d in pick(sorted(S["astereo"].items(), key=lambda kv: repr(kv[0])), 3):
            lig = list(d[1][1:])
            lig[0], lig[1] = lig[1], lig[0]
            ops.append(("atom-stereo-replace", ["set_atom_stereo", [d[0], [d[1][0], *lig], d[2]]]))
            ops.append(("atom-stereo-del", ["delete_atom_stereo", a]))
        for b, d in pick(sorted(S["bstereo"].items(), key=lambda kv: sorted(map(repr, kv[0]))), 3):
            at = list(d[1])
            at[0], at[1] = at[1], at[0]
            ops.append(("bond-stereo-replace", ["set_bond_stereo", [d[0], at, d[2]]]))
            ops.append(("bond-stereo-del", ["delete_bond_stereo", sorted(b, key=repr)]))
        for a in pick([a for a in atoms if a not in S["astereo"]], 1):
            ops.append(("atom-stereo-new", ["set_atom_stereo", ["Tetrahedral", [a, *(atoms + [None] * 4)[:4]], 1]]))
    if cls == "StereoCondensedReactionGraph":
        for a, v in pick(sorted(S["achange"].items(), key=lambda kv: repr(kv[0])), 3):
            if not v:
                continue
            s0 = sorted(v)[0]
            d = v[s0]
            ops.append(("atom-change-del-slot", ["delete_atom_stereo_change", a, s0]))
            ops.append(("atom-change-replace", ["set_atom_stereo_change", {"fleeting": [d[0], list(d[1]), d[2]]}]))
            ops.append(("atom-change-del", ["delete_atom_stereo_change", a, None]))
        for b, v in pick(sorted(S["bchange"].items(), key=lambda kv: sorted(map(repr, kv[0]))), 3):
            if not v:
                continue
            s0 = sorted(v)[0]
            d = v[s0]
            ops.append(("bond-change-del-slot", ["delete_bond_stereo_change", sorted(b, key=repr), s0]))
            ops.append(("bond-change-replace", ["set_bond_stereo_change", {"fleeting": [d[0], list(d[1]), d[2]]}]))
            ops.append(("bond-change-del", ["delete_bond_stereo_change", sorted(b, key=repr), None]))
        for a in pick([a for a in atoms if a not in S["achange"]], 1):
            ops.append(("atom-change-new", ["set_atom_stereo_change", {"broken": ["Tetrahedral", [a, *(atoms + [None] * 4)[:4]], 1]}]))
    new = 91000
    ops.append(("add-atom", ["add_atom", new, "C"]))
    if atoms:
        ops.append(("add-bond-new-atom", ["add_bond", new, atoms[0]]))
        ops.append(("re-add-atom", ["add_atom", atoms[-1], "Si"]))
    nb = [(a, b) for i, a in enumerate(atoms) for b in atoms[i + 1:] if frozenset((a, b)) not in S["bonds"]]
    for a, b in pick(nb, 2):
        ops.append(("add-bond", ["add_bond", a, b]))
    for b in pick(bonds, 2):
        ops.append(("remove-bond", ["remove_bond", *sorted(b, key=repr)]))
    if len(atoms) >= 2:
        ops.append(("relabel-in-place", ["relabel_atoms", [[atoms[0], atoms[1]], [atoms[1], atoms[0]]]]))
    for a in pick(atoms, 2):
        ops.append(("remove-atom", ["remove_atom", a]))
    return ops


def alias_scan(a, b):
    def walk(o, seen, depth=0):
        if depth > 4:
            return
        if isinstance(o, (dict, set, list)):
            seen.add(id(o))
            if isinstance(o, dict):
                for v in o.values():
                    walk(v, seen, depth + 1)
            elif isinstance(o, list):
                for v in o:
                    walk(v, seen, depth + 1)

    def roots(g):
        out = []
        for klass in type(g).__mro__:
            for s in getattr(klass, "__slots__", ()):
                if hasattr(g, s):
                    out.append(getattr(g, s))
        return out

    sa, sb = set(), set()
    for r in roots(a):
        walk(r, sa)
    for r in roots(b):
        walk(r, sb)
    return len(sa & sb)


def gen_cases(ctx):
    rng = ctx.rng
    n = ctx.n(7200, 96000)
    for i in range(n):
        cls = CLASS_NAMES[i % 4]
        ds = [d for d in DERIVATIONS if applicable(cls, d)]
        d = ds[(i // 4) % len(ds)]
        small = rng.random() < 0.6
        pg = gen.random_pg(rng, cls, n_range=(2, 6) if small else (7, 14), alphabet=gen.SMALL, attrs=True, p_stereo=0.8, p_change=0.6, p_role=0.5, id_kind=rng.choice(["range", "sparse"]))
        other = gen.random_pg(rng, cls, n_range=(2, 5), alphabet=gen.SMALL, attrs=True, id_kind="large")
        yield {"cls": cls, "derivation": d, "pg": pg_to_json(pg), "other": pg_to_json(other), "eseed": rng.randrange(1 << 30)}


def check_case(ctx, case):
    pg, other_pg = pg_from_json(case["pg"]), pg_from_json(case["other"])
    cls, d = case["cls"], case["derivation"]
    exhaustive = len(pg["atoms"]) <= 6
    ctx.count(f"derivation:{d}")
    for side in ("derived", "source"):
        rng = random.Random(case["eseed"])
        try:  # the source itself comes from a seed-chosen provenance (direct build, subgraph, compose, relabel, removals, copies, JSON)
            g, via = build_case(pg, case["eseed"])
        except DerivationWrong as e:
            ctx.violate(f"C10/derived-input-differs/{cls}/{e.via}", f"deriving the source graph: {e}", case)
            return
        other = build(other_pg)
        ctx.count(f"via:{via}")
        try:
            der = derive(g, d, rng, other)
        except Exception as e:  # noqa: BLE001
            ctx.violate(f"C10/derivation-raises:{type(e).__name__}/{cls}/{d}", f"{d} raised {e!r}", case)
            return
        ctx.count("pairs")
        shared = alias_scan(g, der)
        if shared:
            ctx.count(f"diag:alias_scan_shared_containers:{d}", shared)
        edited, untouched = (der, g) if side == "derived" else (g, der)
        ecls = type(edited).__name__
        for tkind, op in edits_for(edited, rng, exhaustive):
            M = snap(edited)
            M["achange"] = {k: v for k, v in M["achange"].items() if v}
            M["bchange"] = {k: v for k, v in M["bchange"].items() if v}
            if model.classify(M, ecls, op) != "ok":
                continue
            before_u = raw_views(untouched)
            before_e = raw_views(edited)
            st, val = model.apply_real(edited, op)
            effective = bool(views_equal(before_e, raw_views(edited)))
            ctx.case((cls, d, side, op[0], tkind), effective)
            if effective:
                ctx.count("edits_effective")
            dd = views_equal(before_u, raw_views(untouched))
            if dd:
                ctx.violate(f"C10/leak/{cls}/{d}/edit-{side}/{tkind}", f"{op} on the {side} graph ({st}) changed the other graph: {dd[0]}", dict(case, side=side, edit=op))
                break
    ctx.sample({"class": cls, "derivation": d, "graph": case["pg"]})
