"""C05 - the isomorphism enumerator is exact (valid, complete, duplicate-free)."""
from __future__ import annotations

import random
from collections import Counter

from .. import gen, sem
from ..snapshot import CLASS_NAMES, DerivationWrong, STEREO, build, build_case, pg_from_json, pg_to_json

LEVEL = "exploration"
RULE = (
    "(i) pairs of small graphs (<=7 atoms, tiny alphabets; relabelled / mutated / independent second graph; empty and "
    "single-atom graphs; descriptors with placeholders) enumerated in full-graph mode with stereo on/off, stereo_change "
    "on/off, labels = default | colour refinement (as __eq__ passes them) | constant | element | element+degree: the "
    "complete yielded list must equal the independent reference enumerator's set; (i') the same comparison for random "
    "3-/4-regular one-element graphs of 8-16 atoms against themselves, a relabelled copy or a 2-switch (two bonds "
    "exchanging partners) of themselves - labels and degrees decide nothing there; (ii) symmetric skeletons "
    "(methane ... neopentane, cubane, SF6; automorphism groups 2..31104) with and without descriptors, self and "
    "relabelled pairs: validity of every mapping, no duplicate, count = reference count, self-pairs closed under "
    "composition and inverse and containing the identity; (iii) topological_symmetry_number == number of "
    "stereo-preserving reference automorphisms. Non-trivial: reference answer non-empty and the real search backtracked, "
    "or empty although element multisets and degree sequences agree; distinct by pair invariants x mode x label kind."
)
ASSUMPTIONS = ["reference enumerator (backtracking validated against permutation brute force at start-up)", "caller-supplied labels define what 'structure-preserving' means for atoms (the enumerator sees labels, not elements)"]
ANCHORS = [
    "stereomolgraph.algorithms.isomorphism:vf2pp_all_isomorphisms",
    "stereomolgraph.algorithms.isomorphism:_matching_order",
    "stereomolgraph.algorithms.isomorphism:_find_candidates",
    "stereomolgraph.algorithms.isomorphism:_update_state",
    "stereomolgraph.algorithms.isomorphism:_revert_state",
    "stereomolgraph.algorithms.isomorphism:_stereo_feasibility",
    "stereomolgraph.algorithms.isomorphism:_stereo_change_feasibility",
    "stereomolgraph.algorithms.isomorphism:_graph_feasibility",
    "stereomolgraph.experimental:topological_symmetry_number",
]
REQUIRED_ANCHORS = ANCHORS
REQUIRED = ["pairs_small", "pairs_symmetric", "symmetry_numbers", "reverts", "nonempty_answers", "empty_answers", "group_closure_checked", "labels:default", "labels:colour", "labels:constant", "labels:colliding", "pairs_regular", "scale_cases", "pairs_twins", "same_object_pairs", "labels:marked", "pairs_stale_ligand"]
CASE_TIMEOUT = 120
LABELS = ("default", "colour", "constant", "element", "element+degree", "colliding")
_diag = {"on": False, "bad": 0, "updates": 0, "reverts": 0}


def setup(ctx):
    """diagnostic wrappers (never a verdict): frontier/external consistency after update/revert"""
    import stereomolgraph.algorithms.isomorphism as iso

    up, rev = iso._update_state, iso._revert_state

    def check(state, params):
        mapping, inv, f1, e1, f2, e2 = state
        n1 = params.g1_nbrhd
        mapped = set(mapping)
        front = {n for a in mapped for n in n1[a]} - mapped
        if f1 != front or e1 != set(n1) - mapped - front:
            _diag["bad"] += 1

    def w_up(a, b, state, params):
        r = up(a, b, state, params)
        _diag["updates"] += 1
        if _diag["on"]:
            check(state, params)
        return r

    def w_rev(a, b, state, params):
        r = rev(a, b, state, params)
        _diag["reverts"] += 1
        if _diag["on"]:
            check(state, params)
        return r

    iso._update_state, iso._revert_state = w_up, w_rev


def gen_cases(ctx):
    rng = ctx.rng
    n = ctx.n(20000, 160000)
    for i in range(n):
        cls = CLASS_NAMES[i % 4]
        alpha = rng.choice([gen.TINY, gen.TINY, (6, 1, 8)])
        if (i // 4) % 40 == 0:
            a = sem.pg_empty(cls)
        else:
            nn = rng.randint(1, 7)
            a = gen.random_pg(rng, cls, n_range=(nn, nn), alphabet=alpha, p_stereo=0.7, allow_isolated=rng.random() < 0.2, attrs=rng.random() < 0.25)
        how = rng.random()
        if how < 0.5:
            b = sem.pg_relabel(a, gen.random_bijection(rng, a))
        elif how < 0.75:
            b = sem.pg_relabel(a, gen.random_bijection(rng, a))
            r = gen.mutate(rng, b)
            if r:
                b = r[1]
        else:
            b = gen.random_pg(rng, cls, n_range=(max(1, len(a["atoms"])),) * 2, alphabet=alpha, p_stereo=0.7, allow_isolated=False) if a["atoms"] else sem.pg_empty(cls)
        stereo = cls in STEREO and rng.random() < 0.75
        change = stereo and cls == "StereoCondensedReactionGraph" and rng.random() < 0.75
        yield {"kind": "small", "cls": cls, "a": pg_to_json(a), "b": pg_to_json(b), "stereo": stereo, "change": change, "labels": LABELS[(i // 4) % len(LABELS)], "bseed": rng.randrange(1 << 30)}
    # dense regular one-element graphs (3-/4-regular, 8-16 atoms) against themselves, a relabelled copy or a 2-switch
    # of themselves: labels and degrees decide nothing, every bond has to be checked by the search
    nr = ctx.n(2400, 30000)
    for i in range(nr):
        cls = CLASS_NAMES[i % 4]
        a = gen.random_regular_pg(rng, cls)
        if a is None:
            continue
        how = i // 4 % 3
        if how == 0:
            b = a
        elif how == 1:
            b = sem.pg_relabel(a, gen.random_bijection(rng, a))
        else:
            b = gen.two_switch(rng, a)
            if b is None:
                continue
            b = sem.pg_relabel(b, gen.random_bijection(rng, b))
        yield {"kind": "small", "family": "regular", "cls": cls, "a": pg_to_json(a), "b": pg_to_json(b), "stereo": False, "change": False, "labels": "default" if i % 8 < 6 else "constant", "bseed": rng.randrange(1 << 30)}
    # twin atoms carrying equal (unspecified) descriptors over one atom set
    for i in range(ctx.n(800, 10000)):
        cls = STEREO[i % 2]
        a, b = gen.twin_pair(rng, cls)
        change = False
        if cls == "StereoCondensedReactionGraph" and i % 4 == 1:  # the same descriptors as stereo changes
            slot = rng.choice(["BROKEN", "FORMED", "FLEETING"])
            for g_ in (a, b):
                g_["achange"] = {k: {slot: d} for k, d in g_["astereo"].items()}
                g_["astereo"] = {}
            change = True
        yield {"kind": "small", "family": "twins", "cls": cls, "a": pg_to_json(a), "b": pg_to_json(b), "stereo": True, "change": change, "labels": ("default", "constant", "element", "element+degree")[i % 4], "bseed": rng.randrange(1 << 30)}  # (no colour labels: they tell unspecified from specified parities apart, which the enumeration mode does not)
    # "which automorphisms send atom x to atom y": ONE graph object enumerated against itself (or an equal copy) under
    # two different caller label maps (x marked in the first, y in the second)
    for i in range(ctx.n(1200, 12000)):
        cls = CLASS_NAMES[i % 4]
        if i % 3 == 0:
            a = gen.symmetric_pg(rng, rng.choice(["methane", "ethane", "c2h4", "cyclopropane", "benzene", "star5", "two_methane"]), cls if cls in ("MolGraph", "StereoMolGraph") else "MolGraph")
            a.pop("name", None)
            cls = a["cls"]
            if cls in STEREO and rng.random() < 0.6:
                gen.decorate(rng, a, p_stereo=rng.choice([0.3, 1.0]))
        else:
            a = gen.random_pg(rng, cls, n_range=(2, 7), alphabet=gen.TINY, p_stereo=0.7, allow_isolated=rng.random() < 0.2)
        ids = sorted(a["atoms"], key=repr)
        x = rng.choice(ids)
        same_el = [y for y in ids if a["atoms"][y]["atom_type"] == a["atoms"][x]["atom_type"]]
        y = rng.choice(same_el)
        stereo = cls in STEREO and rng.random() < 0.75
        change = stereo and cls == "StereoCondensedReactionGraph" and rng.random() < 0.75
        yield {"kind": "small", "family": "marked", "cls": cls, "a": pg_to_json(a), "b": pg_to_json(a), "stereo": stereo, "change": change, "labels": "marked", "mark": [ids.index(x), ids.index(y)], "same_object": i % 4 != 3, "bseed": rng.randrange(1 << 30)}
    # a descriptor that still names a ligand its centre is no longer bonded to, and that ligand has a twin
    for i in range(ctx.n(800, 8000)):
        cls = STEREO[i % 2]
        a = gen.stale_ligand_pg(rng, cls)
        b = a if i % 4 < 2 else sem.pg_relabel(a, gen.random_bijection(rng, a))
        yield {"kind": "small", "family": "stale-ligand", "cls": cls, "a": pg_to_json(a), "b": pg_to_json(b), "stereo": True, "change": cls == "StereoCondensedReactionGraph", "labels": ("default", "constant", "element")[i % 3], "bseed": rng.randrange(1 << 30)}
    # very long chains: search depth = number of atoms
    for k, nsz, cls, seed in gen.scale_specs(ctx, rng, reps=1):
        yield {"kind": "small", "family": "scale", "cls": cls, "scale": nsz, "gseed": seed, "self": k % 2 == 0, "stereo": cls in STEREO, "change": cls == "StereoCondensedReactionGraph", "labels": "default", "bseed": seed // 3}
    names = ["methane", "ethane", "c2h4", "cyclopropane", "benzene", "star5", "sf6", "two_methane", "cyclohexane", "cubane", "biphenyl_core", "neopentane"]
    ns = ctx.n(48, 640)
    for i in range(ns):
        name = names[(i * ctx.nshards + ctx.shard) % len(names)] if ctx.tier == "thorough" else names[(i * ctx.nshards + ctx.shard) % (len(names) - 2)]
        cls = rng.choice(["MolGraph", "StereoMolGraph", "StereoMolGraph"])
        pg = gen.symmetric_pg(rng, name, cls)
        pg.pop("name", None)
        if cls in STEREO and rng.random() < 0.7:
            gen.decorate(rng, pg, p_stereo=rng.choice([0.3, 1.0]))
        yield {"kind": "sym", "cls": cls, "name": name, "a": pg_to_json(pg), "self": rng.random() < 0.5, "stereo": cls in STEREO, "bseed": rng.randrange(1 << 30)}
    nt = ctx.n(200, 4000)
    for i in range(nt):
        if rng.random() < 0.4:
            pg = gen.symmetric_pg(rng, rng.choice(names[:9]), "StereoMolGraph")
            pg.pop("name", None)
        else:
            pg = gen.random_pg(rng, "StereoMolGraph", n_range=(1, 9), alphabet=gen.TINY, p_stereo=0.0)
        gen.decorate(rng, pg, p_stereo=rng.choice([0.0, 0.5, 1.0]))
        yield {"kind": "tsn", "cls": "StereoMolGraph", "a": pg_to_json(pg), "bseed": rng.randrange(1 << 30)}


def _labels(kind, g, pg, stereo, change=False):
    if kind == "default":
        return None, {a: v["atom_type"] for a, v in pg["atoms"].items()}
    if kind == "constant":
        lab = {a: 7 for a in pg["atoms"]}
    elif kind == "element":
        lab = {a: int(v["atom_type"]) for a, v in pg["atoms"].items()}
    elif kind == "element+degree":
        nb = sem.pg_neighbors(pg)
        lab = {a: int(v["atom_type"]) * 100 + len(nb[a]) for a, v in pg["atoms"].items()}
    elif kind == "colliding":
        # caller labels that are different but hash alike in CPython: -1 / -2 and 5 / 5 + 2**61 - 1 (per element)
        table = {1: -1, 6: -2, 8: 5, 7: 5 + 2**61 - 1}
        lab = {a: table.get(int(v["atom_type"]), int(v["atom_type"])) for a, v in pg["atoms"].items()}
    else:  # colour refinement exactly as the classes' __eq__ builds them
        from stereomolgraph.algorithms import color_refine as cr

        cname = type(g).__name__
        if cname == "MolGraph" or (cname == "StereoMolGraph" and not stereo):
            arr = cr.color_refine_mg(g, atom_labels=cr.label_hash(g, ("atom_type",)))
        elif cname == "StereoMolGraph":
            arr = cr.color_refine_smg(g, atom_labels=cr.label_hash(g, ("atom_type",)))
        elif cname == "CondensedReactionGraph" or not (stereo and change):
            # colours that see less than the enumeration mode checks never exclude a valid mapping
            arr = cr.color_refine_crg(g, atom_labels=cr.label_hash(g, ("atom_type", "reaction")))
        else:
            arr = cr.color_refine_scrg(g, atom_labels=cr.label_hash(g, ("atom_type", "reaction")))
        lab = {a: int(c) for a, c in zip(g.atoms, arr)}
        return lab, {a: v["atom_type"] for a, v in pg["atoms"].items()}  # colours must not exclude valid maps
    return lab, lab


def _with_labels(pg, lab):
    g = sem.pg_copy(pg)
    for a in g["atoms"]:
        g["atoms"][a] = {"atom_type": lab[a]}
    return g


def _canon(maps):
    return sorted(tuple(sorted(m.items())) for m in maps)


def check_case(ctx, case):
    from stereomolgraph.algorithms.isomorphism import vf2pp_all_isomorphisms

    kind = case["kind"]
    a = pg_from_json(case["a"]) if "a" in case else gen.scale_pg(random.Random(case["gseed"]), case["cls"], case["scale"])
    brng = random.Random(case["bseed"])
    if kind == "tsn":
        return _tsn(ctx, case, a)
    if kind == "small" and "scale" in case:
        ctx.count("scale_cases")
        b = a if case["self"] else sem.pg_relabel(a, gen.random_bijection(brng, a, "perm"))
        stereo, change, lk = case["stereo"], case["change"], case["labels"]
    elif kind == "small":
        b = pg_from_json(case["b"])
        stereo, change, lk = case["stereo"], case["change"], case["labels"]
    else:
        stereo, change, lk = case["stereo"], False, "default"
        b = a if case["self"] else sem.pg_relabel(a, gen.random_bijection(brng, a, "perm"))
    try:
        ga, via = build_case(a, case["bseed"])
        gb, _ = build_case(b, case["bseed"] // 15)
    except DerivationWrong as e:
        ctx.violate(f"C05/derived-input-differs/{case['cls']}/{e.via}", f"deriving the input graph: {e}", case)
        ctx.case()
        return
    ctx.count(f"via:{via}")
    if case.get("same_object"):
        gb = ga
        ctx.count("same_object_pairs")
    if kind == "small" and lk == "colour" and (not a["atoms"] or not b["atoms"]):
        lk = "default"
    if lk == "marked":
        ids = sorted(a["atoms"], key=repr)
        x, y = (ids[k] for k in case["mark"])
        la = ra = {k: int(v["atom_type"]) * 2 + (k == x) for k, v in a["atoms"].items()}
        lb = rb = {k: int(v["atom_type"]) * 2 + (k == y) for k, v in a["atoms"].items()}
    else:
        la, ra = _labels(lk, ga, a, stereo, change)
        lb, rb = _labels(lk, gb, b, stereo, change)
    ref = [dict(m) for m in sem.iter_isos(_with_labels(a, ra), _with_labels(b, rb), stereo=stereo, changes=change, budget=5_000_000)]
    _diag["on"] = kind == "small"
    r0, b0 = _diag["reverts"], _diag["bad"]
    feat = []
    if not a["atoms"]:
        feat.append("empty")
    if any(None in d[1] for g in (a, b) for d in list(g["astereo"].values()) + list(g["bstereo"].values())):
        feat.append("placeholder")
    mode = f"stereo={int(stereo)}/change={int(change)}/labels={lk}/{'+'.join(feat) or 'plain'}"
    try:
        kw = dict(stereo=stereo, stereo_change=change)
        if la is not None:
            kw["atom_labels"] = (la, lb)
        real = list(vf2pp_all_isomorphisms(ga, gb, **kw))
    except Exception as e:  # noqa: BLE001
        ctx.violate(f"C05/enumerator-raises:{type(e).__name__}/{case['cls']}/{kind}/{mode}", f"vf2pp_all_isomorphisms raised {e!r} ({len(a['atoms'])} atoms)", case)
        ctx.case()
        return
    finally:
        _diag["on"] = False
    reverts = _diag["reverts"] - r0
    ctx.count("reverts", reverts)
    if _diag["bad"] - b0:
        ctx.count("diag:frontier-external-inconsistent", _diag["bad"] - b0)
    za = Counter(v["atom_type"] for v in a["atoms"].values())
    zb = Counter(v["atom_type"] for v in b["atoms"].values())
    na, nb = sem.pg_neighbors(a), sem.pg_neighbors(b)
    same_inv = za == zb and sorted(len(v) for v in na.values()) == sorted(len(v) for v in nb.values())
    nontrivial = (bool(ref) and reverts > 0) or (not ref and same_inv)
    ctx.case((kind, sem.canon_key(a), sem.canon_key(b), stereo, change, lk), nontrivial)
    ctx.count("pairs_small" if kind == "small" else "pairs_symmetric")
    if case.get("family") == "regular":
        ctx.count("pairs_regular")
    if case.get("family") == "twins":
        ctx.count("pairs_twins")
    if case.get("family") == "stale-ligand":
        ctx.count("pairs_stale_ligand")
    ctx.count("nonempty_answers" if ref else "empty_answers")
    ctx.count(f"labels:{lk}")
    cr, cf = _canon(real), _canon(ref)
    if len(set(cr)) != len(cr):
        ctx.violate(f"C05/duplicate-mapping/{case['cls']}/{kind}/{mode}", f"{len(cr) - len(set(cr))} mappings yielded twice ({len(a['atoms'])} atoms)", case)
    sr, sf = set(cr), set(cf)
    if sr - sf:
        ctx.violate(f"C05/invalid-mapping/{case['cls']}/{kind}/{mode}", f"{len(sr - sf)} yielded mappings are not structure/stereo preserving, e.g. {dict(next(iter(sr - sf)))} ({len(a['atoms'])} atoms, reference has {len(sf)})", case)
    if sf - sr:
        ctx.violate(f"C05/missing-mapping/{case['cls']}/{kind}/{mode}", f"{len(sf - sr)} valid mappings are not yielded, e.g. {dict(next(iter(sf - sr)))} ({len(a['atoms'])} atoms, real yielded {len(sr)})", case)
    if kind == "sym":
        # every mapping validated directly as well (independent of the reference search order)
        for m in real[:2000]:
            if not sem.valid_mapping(a, b, m, stereo=stereo, changes=False):
                ctx.violate(f"C05/invalid-mapping/{case['cls']}/sym-direct/{mode}", f"yielded mapping {m} is not valid", case)
                break
        if case["self"] and real and len(real) <= 2000:
            S = set(cr)
            ident = tuple(sorted((x, x) for x in a["atoms"]))
            ok = ident in S
            for m in real[:60]:
                inv = tuple(sorted((v, k) for k, v in m.items()))
                ok = ok and inv in S
                for m2 in real[:60]:
                    comp = tuple(sorted((k, m2[v]) for k, v in m.items()))
                    ok = ok and comp in S
            ctx.count("group_closure_checked")
            if not ok:
                ctx.violate(f"C05/not-a-group/{case['cls']}/{mode}", f"automorphisms of {case.get('name')} are not closed under composition/inverse or lack the identity", case)
    ctx.sample({"kind": kind, "class": case["cls"], "mode": mode, "n_atoms": len(a["atoms"]), "n_mappings": len(real), "reverts": reverts, "a": case.get("a", f"chain of {case.get('scale')} atoms") if kind == "small" else case.get("name")})


def _tsn(ctx, case, a):
    from stereomolgraph.experimental import topological_symmetry_number

    g = build(a, rng=random.Random(case["bseed"]))
    want = sum(1 for _ in sem.iter_isos(a, a, stereo=True, changes=False, budget=5_000_000))
    ctx.case(("tsn", sem.canon_key(a)), want > 1)
    ctx.count("symmetry_numbers")
    try:
        got = topological_symmetry_number(g)
    except Exception as e:  # noqa: BLE001
        ctx.violate(f"C05/symmetry-number-raises:{type(e).__name__}", f"topological_symmetry_number raised {e!r} ({len(a['atoms'])} atoms, {want} stereo automorphisms)", case)
        return
    if got != want:
        ctx.violate("C05/symmetry-number-wrong", f"topological_symmetry_number = {got}, stereo-preserving automorphisms = {want} ({len(a['atoms'])} atoms)", case)
