"""C03 - hash agrees with equality and is canonical across interpreter processes."""
from __future__ import annotations

import json
import os
import random
import subprocess
import sys

from .. import gen, sem
from ..snapshot import CLASS_NAMES, build, case_graph_for_sample, case_pg, pg_from_json, pg_to_json
from . import c01

LEVEL = "exploration"
RULE = (
    "the C01 variant families (rebuild under id bijection + shuffled insertion order, relabel copy/in place, every "
    "descriptor re-expressed by a proper symmetry or by an improper one with the opposite parity, composition) for "
    "all four classes with fully specified parities (8 % large inputs of 20-110 atoms as in C01): real hash(g) == hash(g'), set/dict membership; plus a recipe "
    "corpus rebuilt in fresh interpreters under different PYTHONHASHSEED values whose hashes must equal the "
    "in-process ones for every non-empty graph. Non-trivial as C01; distinct by canonical invariants x variant, "
    "resp. (hash seed, graph)."
)
ASSUMPTIONS = ["variants are equal by construction (cross-checked by the reference enumerator in C01)", "sampled PYTHONHASHSEED values"]
ANCHORS = [
    "stereomolgraph.algorithms.color_refine:color_refine_hash_mg",
    "stereomolgraph.algorithms.color_refine:color_refine_hash_smg",
    "stereomolgraph.algorithms.color_refine:color_refine_hash_crg",
    "stereomolgraph.algorithms.color_refine:color_refine_hash_scrg",
    "stereomolgraph.algorithms.color_refine:numpy_int_multiset_hash",
    "stereomolgraph.algorithms.color_refine:_color_refine",
    "stereomolgraph.algorithms.color_refine:_reaction_generator",
]
REQUIRED_ANCHORS = ANCHORS
REQUIRED = ["hash_pairs", "process_graphs", "with_changes", "with_placeholder", "mirror_rewrites", "large_graphs", "scale_cases", "high_coordination_cases", "periodic_nets"]
CASE_TIMEOUT = 1600


def corpus(seed, n):
    rng = random.Random(f"corpus/{seed}")
    out = []
    for i in range(n):
        cls = CLASS_NAMES[i % 4]
        out.append(gen.random_pg(rng, cls, n_range=(1, 12), alphabet=rng.choice([gen.SMALL, gen.WIDE]), attrs=True))
    return out


def corpus_hashes(seed, n):
    out = []
    for pg in corpus(seed, n):
        try:
            out.append(hash(build(pg)))
        except Exception as e:  # noqa: BLE001
            out.append(f"raised:{type(e).__name__}:{e}"[:160])
    return out


def gen_cases(ctx):
    rng = ctx.rng
    n = ctx.n(8000, 200000)
    big = (1, 10) if ctx.tier == "quick" else (1, 24)
    for i in range(n):
        cls = CLASS_NAMES[i % 4]
        j = i // 4
        if j % 12 == 5:
            from .c02 import _specified

            pg = _specified(gen.large_pg(rng, cls))  # C03 is stated for fully specified parities
        else:
            pg = gen.random_pg(rng, cls, n_range=big if rng.random() < 0.3 else (2, 9), alphabet=rng.choice([gen.TINY, gen.SMALL, gen.WIDE]), p_none=0.0, allow_empty=False)
        m = gen.random_bijection(rng, pg)
        yield {"kind": "variant", "cls": cls, "pg": pg_to_json(pg), "variant": c01.VARIANTS[j % len(c01.VARIANTS)], "bseed": rng.randrange(1 << 30), "idmap": [[a, b] for a, b in m.items()]}
    for k, deg, cls, seed in gen.high_coordination_specs(ctx, rng):
        pg = gen.high_coordination_pg(random.Random(seed), cls, deg)
        m = gen.random_bijection(rng, pg)
        yield {"kind": "variant", "cls": cls, "pg": pg_to_json(pg), "variant": ("rebuild", "relabel_copy", "derived")[k % 3], "bseed": seed // 3, "idmap": [[a, b] for a, b in m.items()], "high_coordination": deg}
    for k, nsz, cls, seed in gen.scale_specs(ctx, rng):
        yield {"kind": "variant", "cls": cls, "scale": nsz, "gseed": seed, "variant": ("rebuild", "derived", "relabel_copy", "relabel_inplace", "derived")[k % 5], "bseed": seed // 3}
    # periodic nets (sheet / crystal supercells): tens of thousands of atoms that ALL have the same degree and are bonded
    # to atoms of the same degree - one colour class as large as the graph (sizes below the library's 32767-atom limit)
    nets = [("square", 132, "MolGraph"), ("square", 132, "CondensedReactionGraph")]
    if ctx.tier == "thorough":
        nets += [("square", 150, "MolGraph"), ("honeycomb", 106, "MolGraph"), ("triangular", 106, "CondensedReactionGraph"), ("honeycomb", 106, "StereoMolGraph"), ("square", 150, "StereoCondensedReactionGraph"), ("triangular", 120, "MolGraph")]
    for k, (net, size, cls) in enumerate(nets):
        if k % ctx.nshards == ctx.shard:
            yield {"kind": "net", "net": net, "size": size, "cls": cls, "bseed": rng.randrange(1 << 30)}
    # process part: hash seeds are spread over the shards
    seeds = list(range(1, 5)) if ctx.tier == "quick" else [*range(1, 31), 4294967295, "random"]
    for k, hs in enumerate(seeds):
        if k % ctx.nshards == ctx.shard:
            yield {"kind": "process", "hashseed": hs, "corpus_seed": ctx.seed, "n": 300}
    # thorough only: every pair the library itself calls equal while the repository's tests run must hash alike
    if ctx.tier == "thorough" and ctx.shard == ctx.nshards - 1:
        yield {"kind": "ambient"}


def check_case(ctx, case):
    if case["kind"] == "ambient":
        from ..instrument import run_ambient

        ev, viol, tail = run_ambient("C03/")
        ctx.count("ambient:eq_true", ev.get("eq_true", 0))
        ctx.count("ambient:eq_hash_checked", ev.get("eq_hash_checked", 0))
        ctx.case(("ambient",), ev.get("eq_hash_checked", 0) > 0)
        for v in viol[:20]:
            ctx.violate(v["key"], "repository test-suite under the ambient eq=>hash monitor: " + v["what"], case)
        ctx.sample({"kind": "ambient", "events": ev, "pytest": tail}, cap=3)
        return
    if case["kind"] == "process":
        return _process(ctx, case)
    if case["kind"] == "net":
        return _net(ctx, case)
    pg = case_pg(case)
    if "scale" in case:
        ctx.count("scale_cases")
    if "high_coordination" in case:
        ctx.count("high_coordination_cases")
    cls, variant = case["cls"], case["variant"]
    m = {a: b for a, b in case["idmap"]} if "idmap" in case else gen.random_bijection(random.Random(case["bseed"] + 1), pg)
    brng = random.Random(case["bseed"])
    fkey = "+".join(c01.features(pg)) or "plain"
    try:
        g, g2 = c01._variant(pg, variant, brng, m)
    except Exception as e:  # noqa: BLE001
        ctx.violate(f"C03/variant-raises:{type(e).__name__}/{cls}/{variant}/{fkey}", f"constructing the {variant} variant raised {e!r}", case)
        ctx.case()
        return
    ctx.case((sem.canon_key(pg), variant), len(pg["atoms"]) >= 2 and len(pg["bonds"]) >= 1)
    descs = list(pg["astereo"].values()) + list(pg["bstereo"].values()) + [d for v in list(pg["achange"].values()) + list(pg["bchange"].values()) for d in v.values()]
    if len(pg["atoms"]) >= 20:
        ctx.count("large_graphs")
    if pg["achange"] or pg["bchange"]:
        ctx.count("with_changes")
    if any(None in d[1] for d in descs):
        ctx.count("with_placeholder")
    if variant in ("rewrite", "all") and any(sem.CHIRAL[d[0]] for d in descs):
        ctx.count("mirror_rewrites")
    try:
        h1, h2 = hash(g), hash(g2)
    except Exception as e:  # noqa: BLE001
        ctx.violate(f"C03/hash-raises:{type(e).__name__}/{cls}/{variant}/{fkey}", f"hash raised {e!r} for a {variant} variant of a {cls}", case)
        return
    ctx.count("hash_pairs")
    if h1 != h2:
        ctx.violate(f"C03/hash-differs/{cls}/{variant}/{fkey}", f"hash(g) != hash(g') for a {variant} variant of a {cls} with {len(pg['atoms'])} atoms", case)
    else:
        try:
            if len({g, g2}) != 1 or g2 not in {g: 1}:
                ctx.violate(f"C03/set-membership/{cls}/{variant}/{fkey}", "equal graphs with equal hashes are two different set members", case)
        except Exception as e:  # noqa: BLE001
            ctx.violate(f"C03/set-raises:{type(e).__name__}/{cls}/{variant}/{fkey}", f"set/dict membership raised {e!r}", case)
    ctx.sample({"class": cls, "variant": variant, "graph": case_graph_for_sample(case), "hash": h1})


def _net(ctx, case):
    """a periodic net built row by row with ids 0..n-1 and the same net with permuted ids, shuffled insertion order of
    atoms and bonds and swapped bond ends: equal hashes"""
    from ..snapshot import classes

    n, cls, net = case["size"], case["cls"], case["net"]
    rng = random.Random(case["bseed"])
    cell = 2 if net == "honeycomb" else 1

    def idx(i, j, s=0):
        return ((i % n) * n + (j % n)) * cell + s

    atoms = [(idx(i, j, s), 6) for i in range(n) for j in range(n) for s in range(cell)]
    for k in rng.sample(range(len(atoms)), 3):
        atoms[k] = (atoms[k][0], rng.choice([7, 8, 14]))
    bonds = []
    for i in range(n):
        for j in range(n):
            if net == "honeycomb":
                bonds += [(idx(i, j, 0), idx(i, j, 1)), (idx(i, j, 1), idx(i + 1, j, 0)), (idx(i, j, 1), idx(i, j + 1, 0))]
            else:
                bonds += [(idx(i, j), idx(i + 1, j)), (idx(i, j), idx(i, j + 1))]
                if net == "triangular":
                    bonds.append((idx(i, j), idx(i + 1, j + 1)))
    roles = {}
    if "Reaction" in cls:
        for k in rng.sample(range(len(bonds)), 5):
            roles[k] = rng.choice(["add_formed_bond", "add_broken_bond", "add_fleeting_bond"])

    def make(perm, shuffle):
        g = classes()[cls]()
        A = list(atoms)
        B = list(enumerate(bonds))
        if shuffle:
            rng.shuffle(A)
            rng.shuffle(B)
        for a, z in A:
            g.add_atom(perm[a], z)
        for k, (x, y) in B:
            if shuffle and rng.random() < 0.5:
                x, y = y, x
            getattr(g, roles.get(k, "add_bond"))(perm[x], perm[y])
        return g

    ident = list(range(len(atoms)))
    perm = ident[:]
    rng.shuffle(perm)
    ctx.count("periodic_nets")
    ctx.count(f"net:{net}:{len(atoms)}-atoms")
    ctx.case(("net", net, n, cls), True)
    try:
        h1, h2 = hash(make(ident, False)), hash(make(perm, True))
    except Exception as e:  # noqa: BLE001
        ctx.violate(f"C03/hash-raises:{type(e).__name__}/{cls}/net-{net}", f"hash of a periodic {net} net with {len(atoms)} atoms raised {e!r}", case)
        return
    ctx.count("hash_pairs")
    if h1 != h2:
        ctx.violate(f"C03/hash-differs/{cls}/renumbered+reordered/net-{net}", f"periodic {net} net, {len(atoms)} atoms of degree {3 if net == 'honeycomb' else 4 if net == 'square' else 6}: the row-by-row build and a renumbered, reordered build hash differently", case)
    ctx.sample({"kind": "net", "net": net, "atoms": len(atoms), "class": cls, "hash": h1})


def _process(ctx, case):
    here = corpus_hashes(case["corpus_seed"], case["n"])
    env = dict(os.environ)
    env["PYTHONHASHSEED"] = str(case["hashseed"])
    r = subprocess.run([sys.executable, "-m", "smgmon.props.c03", str(case["corpus_seed"]), str(case["n"])], env=env, capture_output=True, text=True, timeout=100)
    if r.returncode != 0:
        ctx.violate("C03/process/subprocess-failed", f"hashing the corpus under PYTHONHASHSEED={case['hashseed']} failed: {r.stderr[-300:]}", case)
        return
    there = json.loads(r.stdout.strip().splitlines()[-1])
    pgs = corpus(case["corpus_seed"], case["n"])
    for i, (a, b, pg) in enumerate(zip(here, there, pgs)):
        if isinstance(a, str) or isinstance(b, str):
            ctx.violate(f"C03/hash-raises:{str(a if isinstance(a, str) else b).split(':')[1]}/{pg['cls']}/process-corpus", f"hash() of corpus graph {i}: {a if isinstance(a, str) else b}", dict(case, index=i))
            continue
        if not pg["atoms"]:
            continue
        ctx.case(("process", case["hashseed"], i), True)
        ctx.count("process_graphs")
        if a != b:
            ctx.violate(f"C03/process-dependent-hash/{pg['cls']}", f"hash of corpus graph #{i} ({pg['cls']}, {len(pg['atoms'])} atoms) is {a} under PYTHONHASHSEED=0 and {b} under {case['hashseed']}", case)
    ctx.sample({"kind": "process", "hashseed": case["hashseed"], "graphs": len(here), "first_hashes": here[:3]})


if __name__ == "__main__":
    print(json.dumps(corpus_hashes(int(sys.argv[1]), int(sys.argv[2]))))
