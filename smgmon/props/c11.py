"""C11 - relabelling is a faithful, reversible renaming and leaves a fully usable graph."""
from __future__ import annotations

import random

from .. import gen, model, sem
from ..snapshot import CLASS_NAMES, DerivationWrong, build, build_case, case_graph_for_sample, case_pg, pg_from_json, pg_to_json, snap
from . import c09

LEVEL = "exploration"
RULE = (
    "graphs of the four classes (isolated atoms, attributes, all descriptor classes, placeholders, stereo changes), "
    "freshly built or after a query battery; mappings: total bijections, partial injective mappings with image disjoint "
    "from the unmapped atoms, identity, empty mapping, swaps/cycles inside the id set, large/negative targets; copy=True "
    "and copy=False. Oracle: snapshot of the result == reference relabelling of the snapshot of the source on every view "
    "(exact tuples, attributes included), source untouched for copy=True, same object returned for copy=False, inverse "
    "mapping restores the source snapshot, then a follow-up battery on the result under the C09 monitors (queries leave "
    "views unchanged, coherence invariants, add_atom/add_bond/remove_atom/second relabel tracked by the reference "
    "model), and == / hash against the source. Non-trivial: mapping moves >=1 atom; distinct by (class, invariants, "
    "mapping kind, mode)."
)
ASSUMPTIONS = ["reference relabelling on plain data (sem.pg_relabel)", "C09 reference model for the follow-up edits"]
ANCHORS = [
    "stereomolgraph.graphs.mg:MolGraph.relabel_atoms",
    "stereomolgraph.graphs.smg:StereoMolGraph.relabel_atoms",
    "stereomolgraph.graphs.scrg:StereoCondensedReactionGraph.relabel_atoms",
]
REQUIRED_ANCHORS = ANCHORS
REQUIRED = ["relabels", "kind:partial", "kind:total", "kind:cycle", "kind:identity", "kind:empty", "kind:foreign", "with_isolated", "with_changes", "mode:copy", "mode:inplace", "followup_ops", "inverse_checked", "scale_cases", "stale_ligand_only_mappings"]
KINDS = ("total", "partial", "cycle", "identity", "empty", "partial", "total", "swap", "foreign")


def make_mapping(rng, ids, kind):
    ids = list(ids)
    if kind == "identity":
        return {a: a for a in ids}
    if kind == "empty" or not ids:
        return {}
    if kind == "total":
        return dict(zip(ids, gen.make_ids(rng, len(ids), rng.choice(["sparse", "negative", "large", "shuffled"]))))
    if kind == "cycle":
        sub = rng.sample(ids, rng.randint(1, len(ids)))
        return {a: b for a, b in zip(sub, sub[1:] + sub[:1])}
    if kind == "foreign":
        # one renumbering table applied to a graph that holds only some (or none) of its keys: the other entries are
        # irrelevant; the table is made exactly as long as the graph has atoms
        sub = rng.sample(ids, rng.randint(0, max(0, len(ids) - 1)))
        pool = [x for x in range(3000, 9000) if x not in ids]
        tgt = rng.sample(pool, len(ids))
        m = dict(zip(sub, tgt))
        extra = [x for x in range(-900, -300) if x not in ids]
        for k_, t_ in zip(rng.sample(extra, len(ids) - len(sub)), tgt[len(sub):]):
            m[k_] = t_
        # a table written for another molecule may point at labels this graph uses (and does not rename itself)
        stay = [a for a in ids if a not in sub]
        foreign = [k_ for k_ in m if k_ not in ids]
        for k_, t_ in zip(foreign, rng.sample(stay, min(len(stay), len(foreign), rng.randint(0, 2)))):
            m[k_] = t_
        return m
    if kind == "swap":
        if len(ids) < 2:
            return {}
        a, b = rng.sample(ids, 2)
        return {a: b, b: a}
    sub = rng.sample(ids, rng.randint(1, len(ids)))
    pool = [x for x in range(-300, 2000) if x not in ids]
    return dict(zip(sub, rng.sample(pool, len(sub))))


def gen_cases(ctx):
    rng = ctx.rng
    n = ctx.n(5000, 90000)
    for i in range(n):
        cls = CLASS_NAMES[i % 4]
        pg = gen.random_pg(rng, cls, n_range=(1, 10) if ctx.tier == "quick" else (1, 20), alphabet=rng.choice([gen.TINY, gen.SMALL, gen.WIDE]), attrs=True, p_none=rng.choice([0, 0.2]), p_change=0.5)
        kind = KINDS[(i // 4) % len(KINDS)]
        m = make_mapping(rng, pg["atoms"], kind)
        yield {"cls": cls, "pg": pg_to_json(pg), "kind": kind, "mapping": [[a, b] for a, b in m.items()], "copy": (i // 32) % 2 == 0, "queried_first": rng.random() < 0.4, "bseed": rng.randrange(1 << 30)}
    # a descriptor that outlived a bond (remove_bond keeps descriptors): the partial mapping renames ONLY the former
    # ligand - neither the centre nor any of its remaining neighbours (seeded C11h: "untouched centre" fast path)
    for i in range(ctx.n(1200, 12000)):
        cls = ("StereoMolGraph", "StereoCondensedReactionGraph")[i % 2]
        pg = gen.random_pg(rng, cls, n_range=(4, 10), alphabet=rng.choice([gen.TINY, gen.SMALL]), attrs=i % 3 == 0, p_stereo=0.9, p_none=rng.choice([0, 0.2]), p_change=0.3)
        cands = [(c, l) for c, d in sorted(pg["astereo"].items(), key=repr) for l in d[1][1:] if l is not None and frozenset((c, l)) in pg["bonds"] and frozenset((c, l)) not in pg["bstereo"] and frozenset((c, l)) not in pg["bchange"]]
        if not cands:
            continue
        c, l = rng.choice(cands)
        del pg["bonds"][frozenset((c, l))]
        new = next(x for x in (l + 1000, 424243, -l - 77, 10**12 + 3) if x not in pg["atoms"])
        m = {l: new}
        if i % 4 == 3:  # plus a renamed atom far from the centre
            far = [a for a in sorted(pg["atoms"], key=repr) if a not in (c, l) and frozenset((a, c)) not in pg["bonds"]]
            if far:
                m[far[0]] = next(x for x in (far[0] + 2000, 424299, 10**12 + 9) if x not in pg["atoms"] and x != new)
        yield {"cls": cls, "pg": pg_to_json(pg), "kind": "partial", "mapping": [[a, b] for a, b in m.items()], "copy": (i // 2) % 2 == 0, "queried_first": False, "bseed": rng.randrange(1 << 30), "family": "stale-ligand-only"}
    for k, nsz, cls, seed in gen.scale_specs(ctx, rng):
        yield {"cls": cls, "scale": nsz, "gseed": seed, "kind": ("total", "partial", "cycle", "swap", "partial")[k % 5], "copy": k % 2 == 0, "queried_first": False, "bseed": seed // 3}


def check_case(ctx, case):
    pg = case_pg(case)
    cls, kind, copy = case["cls"], case["kind"], case["copy"]
    if "scale" in case:
        ctx.count("scale_cases")
        if kind == "partial":  # the generic pool is too small for thousands of atoms
            sub = random.Random(case["bseed"] + 6).sample(sorted(pg["atoms"]), len(pg["atoms"]) // 3)
            top = max(pg["atoms"]) + 10
            m = {a: top + i for i, a in enumerate(sub)}
        else:
            m = make_mapping(random.Random(case["bseed"] + 5), pg["atoms"], kind)
    else:
        m = {a: b for a, b in case["mapping"]}
    rng = random.Random(case["bseed"])
    try:
        g, via = build_case(pg, case["bseed"])
    except DerivationWrong as e:
        ctx.violate(f"C11/derived-input-differs/{cls}/{e.via}", f"deriving the input graph: {e}", case)
        ctx.case()
        return
    ctx.count(f"via:{via}")
    if case.get("family") == "stale-ligand-only":
        ctx.count("stale_ligand_only_mappings")
    uni = tuple(sorted(pg["atoms"], key=repr))[:4] + (424242,)
    if case["queried_first"]:
        for _, thunk in model.queries(g, uni):
            try:
                thunk()
            except Exception:  # noqa: BLE001
                pass
    src = snap(g)
    moves = any(a != b for a, b in m.items())
    nb = sem.pg_neighbors(pg)
    iso = any(not v for v in nb.values())
    has_change = bool(pg["achange"] or pg["bchange"])
    mode = "copy" if copy else "inplace"
    feat = "+".join(x for x, on in (("isolated", iso), ("change", has_change)) if on) or "plain"
    key = f"{cls}/{kind}/{mode}/{feat}"
    ctx.case((sem.canon_key(pg), kind, mode), moves)
    ctx.count("relabels")
    ctx.count(f"kind:{kind}")
    ctx.count(f"mode:{mode}")
    if iso:
        ctx.count("with_isolated")
    if has_change:
        ctx.count("with_changes")
    try:
        marg, mkind, munchanged = model.mapping_arg(list(m.items()), (case["bseed"], kind))
        ctx.count(f"mapping_given_as:{mkind}")
        h = g.relabel_atoms(marg, copy=copy)
        if not munchanged():
            ctx.violate(f"C11/caller-mapping-modified/{cls}/{mkind}", f"relabel_atoms changed the caller's {mkind} ({kind} mapping, {mode})", case)
    except Exception as e:  # noqa: BLE001
        ctx.violate(f"C11/relabel-raises:{type(e).__name__}/{key}", f"relabel_atoms raised {e!r} for a {kind} mapping ({mode})", case)
        return
    if not copy and h is not g:
        ctx.violate(f"C11/in-place-returns-other-object/{cls}", "relabel_atoms(copy=False) returned a different object", case)
        h = g if h is None else h
    if copy and h is g:
        ctx.violate(f"C11/copy-returns-self/{cls}", "relabel_atoms(copy=True) returned the source object", case)
    want = sem.pg_relabel(src, m)
    got = snap(h)
    diff = sem.pg_diff(want, got, mode="exact")
    if diff:
        ctx.violate(f"C11/wrong-renaming/{key}/{diff[0].split(':')[0].split('[')[0].split(' of ')[0].replace(' ', '-')}", f"result differs from the reference renaming: {'; '.join(diff[:2])}", case)
        return
    if type(h) is not type(g):
        ctx.violate(f"C11/class-changed/{cls}", f"result is a {type(h).__name__}", case)
    if copy:
        d0 = sem.pg_diff(src, snap(g), mode="exact")
        if d0:
            ctx.violate(f"C11/copy-mode-changed-source/{key}", f"source changed: {d0[0]}", case)
    if not copy and h is not g:
        d1 = sem.pg_diff(want, snap(g), mode="exact")
        if d1:
            ctx.violate(f"C11/in-place-did-not-rename-self/{key}", f"self after relabel_atoms(copy=False): {d1[0]}", case)
    # inverse mapping restores the labelled graph
    inv = {b: a for a, b in m.items() if a in src["atoms"]}  # (entries whose key is not an atom rename nothing)
    if len(inv) == len([a for a in m if a in src["atoms"]]):
        try:
            back = h.relabel_atoms(inv, copy=True)
            ctx.count("inverse_checked")
            d2 = sem.pg_diff(src, snap(back), mode="exact")
            if d2:
                ctx.violate(f"C11/inverse-does-not-restore/{key}", f"relabel by m then by m^-1: {d2[0]}", case)
        except Exception as e:  # noqa: BLE001
            ctx.violate(f"C11/inverse-raises:{type(e).__name__}/{key}", f"relabelling back raised {e!r}", case)
    # ---- the relabelled graph stays fully usable (C09 monitor stack)
    M = sem.pg_copy(want)
    uni2 = tuple(sorted(want["atoms"], key=repr))[:4] + (424242,)
    fcase = dict(case)
    for inv_name, text in model.coherence(h, uni2):
        ctx.violate(f"C11/unusable/{cls}/incoherent-{inv_name}/{mode}/{feat}", f"after relabel: {text}", case)
        return
    ok = _battery(ctx, h, cls, case, uni2, key)
    if not ok:
        return
    if all(d[2] is not None for d in list(pg["astereo"].values()) + list(pg["bstereo"].values()) + [x for v in list(pg["achange"].values()) + list(pg["bchange"].values()) for x in v.values()]):
        try:
            g0 = build(pg)
            if not (g0 == h) or not (h == g0):
                ctx.violate(f"C11/unusable/{cls}/not-equal-to-source/{mode}/{feat}", "source != relabelled graph", case)
            elif hash(g0) != hash(h):
                ctx.violate(f"C11/unusable/{cls}/hash-differs-from-source/{mode}/{feat}", "hash(source) != hash(relabelled)", case)
        except Exception as e:  # noqa: BLE001
            ctx.violate(f"C11/unusable/{cls}/eq-or-hash-raises:{type(e).__name__}/{mode}/{feat}", f"== / hash raised {e!r}", case)
            return
    # follow-up edits tracked by the reference model
    ids = list(want["atoms"])
    fresh = max([x for x in ids if isinstance(x, int)] + [0]) + 1
    ops = []
    lonely = [a for a, v in sem.pg_neighbors(want).items() if not v]
    if lonely and len(ids) > 1:
        a = lonely[0]
        ops.append(["add_bond", a, rng.choice([x for x in ids if x != a])])
    ops.append(["add_atom", fresh, "C"])
    if ids:
        ops.append(["add_bond", fresh, rng.choice(ids)])
        ops.append(["set_atom_attribute", rng.choice(ids), "label", 9])
        ops.append(["remove_atom", rng.choice(ids)])
    ops.append(["relabel_atoms", [[fresh, fresh + 7]]])
    ops.append(["add_atom", fresh, "H"])
    ops.append(["add_bond", fresh, fresh + 7])
    for op in ops:
        if model.classify(M, cls, op) != "ok":
            continue
        ctx.count("followup_ops")
        hist_case = dict(case, followup=op)
        before_v = len(ctx.violations)
        c09.step(ctx, h, M, cls, op, hist_case, tuple(sorted(M["atoms"], key=repr))[:5] + (424242,), do_battery=False)
        if len(ctx.violations) > before_v:
            # re-key C09 keys under C11 for clarity
            for v in ctx.violations[before_v:]:
                v["key"] = v["key"].replace("C09/", "C11/unusable-followup/", 1)
            return
    try:
        sub = h.subgraph(list(M["atoms"])[:3])
        h.copy()
        type(h)(h)
        sub == sub
    except Exception as e:  # noqa: BLE001
        ctx.violate(f"C11/unusable/{cls}/subgraph-or-copy-raises:{type(e).__name__}/{mode}/{feat}", f"subgraph/copy after relabel raised {e!r}", case)
    ctx.sample({"class": cls, "kind": kind, "mode": mode, "mapping": case.get("mapping", [])[:6], "graph": case_graph_for_sample(case)})


def _battery(ctx, h, cls, case, uni, key):
    from ..snapshot import raw_views, views_equal

    before = raw_views(h)
    for name, thunk in model.queries(h, uni):
        try:
            thunk()
        except KeyError as e:
            # a present atom must be queryable; absent ids may raise
            if name in ("bonded_to", "get_atom_type", "get_atom_attributes", "node_connected_component", "connected_components", "eq-self", "hash", "copy", "subgraph", "connectivity_matrix") and e.args and e.args[0] in before["atoms"]:
                ctx.violate(f"C11/unusable/{cls}/{name}-raises-KeyError-for-present-atom/{key.split('/', 1)[1]}", f"{name} raised {e!r} on the relabelled graph", case)
                return False
        except Exception:  # noqa: BLE001
            pass
        d = views_equal(before, raw_views(h))
        if d:
            ctx.violate(f"C11/unusable/{cls}/query-changes-view/{name}", f"{name} on the relabelled graph changed a view: {d[0]}", case)
            return False
    return True
