"""C01 - equality never misses: renamed / re-expressed / re-ordered graphs compare equal."""
from __future__ import annotations

import random

from .. import gen, sem
from ..snapshot import CLASS_NAMES, VIAS, build, build_case, case_graph_for_sample, case_pg, pg_from_json, pg_to_json, snap

LEVEL = "exploration"
RULE = (
    "random graphs of the 4 classes (empty, single atom, isolated atoms, disconnected, all 6 descriptor "
    "classes, placeholders, unspecified parities, formed/broken/fleeting bonds, stereo changes; 8 % large inputs of 20-110 atoms: long chains, macrocycles, big random graphs, RDKit drug-like molecules and complexes; 12 % unions of 1-WL-indistinguishable components) x variants: "
    "rebuild through public mutators under a random id bijection and shuffled insertion order; "
    "relabel_atoms copy / in place; every descriptor rewritten by a random proper (same parity) or improper "
    "(opposite parity) symmetry; composition of all. Real ==, reversed ==, is_isomorphic, reflexive == are "
    "observed and must be True. Non-trivial: >=2 atoms, >=1 bond and the variant differs in ids, order or a "
    "descriptor tuple; distinct by (class, size, degree/element signature, roles, descriptor signature, variant)."
)
ASSUMPTIONS = [
    "variants are equal by construction; the construction is cross-checked on a subsample by the independent reference enumerator of sem.py",
]
ANCHORS = [
    "stereomolgraph.graphs.mg:MolGraph.__eq__",
    "stereomolgraph.graphs.smg:StereoMolGraph.__eq__",
    "stereomolgraph.graphs.crg:CondensedReactionGraph.__eq__",
    "stereomolgraph.graphs.scrg:StereoCondensedReactionGraph.__eq__",
    "stereomolgraph.algorithms.isomorphism:_stereo_feasibility",
    "stereomolgraph.algorithms.isomorphism:_stereo_change_feasibility",
    "stereomolgraph.stereodescriptors:_StereoMixin.__eq__",
    "stereomolgraph.graphs.mg:MolGraph.relabel_atoms",
    "stereomolgraph.graphs.smg:StereoMolGraph.relabel_atoms",
    "stereomolgraph.graphs.scrg:StereoCondensedReactionGraph.relabel_atoms",
]
REQUIRED_ANCHORS = ANCHORS
REQUIRED = ["symmetry_checks", "eq_observed", "with_changes", "with_placeholder", "with_unspecified", "empty_graph", "isolated_atoms", "harness_crosscheck", "disconnected", "large_graphs", "scale_cases", "high_coordination_cases"]
CASE_TIMEOUT = 1500
VARIANTS = ("rebuild", "relabel_copy", "relabel_inplace", "rewrite", "all", "derived", "numpy_parity")


def features(pg):
    f = []
    if not pg["atoms"]:
        return ["empty"]
    nb = sem.pg_neighbors(pg)
    if any(not v for v in nb.values()):
        f.append("isolated")
    if pg["achange"] or pg["bchange"]:
        f.append("change")
    return f


def gen_cases(ctx):
    rng = ctx.rng
    n = ctx.n(12000, 200000)
    big = (1, 10) if ctx.tier == "quick" else (1, 24)
    for i in range(n):
        cls = CLASS_NAMES[i % 4]
        p_none = rng.choice([0.0, 0.0, 0.2])
        j = i // 4
        special = (j // len(VARIANTS)) % 25
        if special == 0:
            pg = sem.pg_empty(cls)
        elif special == 1:
            pg = gen.random_pg(rng, cls, n_range=(1, 1), allow_isolated=False)
        elif special in (2, 3, 4):
            pg = gen.wl_hard_pg(rng, cls)  # unions of 1-WL-indistinguishable, non-isomorphic components
        elif special in (5, 6):
            pg = gen.large_pg(rng, cls)  # 20-110 atoms: long chains, macrocycles, big random graphs, RDKit molecules
        else:
            pg = gen.random_pg(rng, cls, n_range=big if rng.random() < 0.3 else (2, 9), alphabet=rng.choice([gen.TINY, gen.SMALL, gen.WIDE]), p_none=p_none, allow_empty=False, attrs=rng.random() < 0.25)
        m = gen.random_bijection(rng, pg)
        yield {"cls": cls, "pg": pg_to_json(pg), "variant": VARIANTS[j % len(VARIANTS)], "bseed": rng.randrange(1 << 30), "idmap": [[a, b] for a, b in m.items()]}
    # very long chains (300-2600 backbone atoms): deep recursion / n*n index arithmetic inside == and hash
    # centres with 7-9 ligands and no descriptor
    for k, deg, cls, seed in gen.high_coordination_specs(ctx, rng):
        pg = gen.high_coordination_pg(random.Random(seed), cls, deg)
        m = gen.random_bijection(rng, pg)
        yield {"cls": cls, "pg": pg_to_json(pg), "variant": ("rebuild", "relabel_copy", "derived")[k % 3], "bseed": seed // 3, "idmap": [[a, b] for a, b in m.items()], "high_coordination": deg}
    # thorough only (one case, ~3 min and ~1 GB on the pinned code): a centre with TEN ligands and no descriptor -
    # colour refinement of the stereo classes walks over all 10! neighbour orders
    for k10 in range(4):
        seed10 = rng.randrange(1 << 30)
        if ctx.tier == "thorough" and ctx.shard == (1 + k10) % ctx.nshards:
            pg = gen.high_coordination_pg(random.Random(seed10), ("StereoMolGraph", "StereoCondensedReactionGraph")[k10 % 2], 10)
            m = gen.random_bijection(random.Random(seed10 + 1), pg)
            yield {"cls": pg["cls"], "pg": pg_to_json(pg), "variant": ("rebuild", "relabel_copy")[k10 // 2], "bseed": seed10 // 3, "idmap": [[a, b] for a, b in m.items()], "high_coordination": 10}
    for k, nsz, cls, seed in gen.scale_specs(ctx, rng):
        yield {"cls": cls, "scale": nsz, "gseed": seed, "variant": ("rebuild", "relabel_copy", "derived", "relabel_inplace", "derived")[k % 5], "bseed": seed // 3}


def _variant(pg, variant, brng, m):
    """returns (g, g2) real graphs; g2 is the variant of g"""
    g = build(pg)
    if variant == "rebuild":
        g2 = build(pg, rng=brng, idmap=m)
    elif variant == "relabel_copy":
        g2 = g.relabel_atoms(m, copy=True)
    elif variant == "relabel_inplace":
        g2 = build(pg)
        g2.relabel_atoms(m, copy=False)
    elif variant == "rewrite":
        g2 = build(pg, rng=brng, rewrite=True)
    elif variant == "numpy_parity":  # the same graph with its parities given as numpy integer scalars (what np.sign returns)
        g2 = build(pg, rng=brng, idmap=m, numpy_parity=True if brng.random() < 0.5 else "ids")
    elif variant == "derived":  # the same abstract graph reached through subgraph / compose / removals / copies / JSON ...
        via = VIAS[1 + brng.randrange(len(VIAS) - 1)]
        g2, _ = build_case(sem.pg_relabel(pg, m), brng.randrange(1 << 30), via=via)
    else:
        g2 = build(pg, rng=brng, idmap=m, rewrite=True)
        ids = list(g2.atoms)
        tgt = ids[:]
        brng.shuffle(tgt)
        g2 = g2.relabel_atoms({a: b + 5000 for a, b in zip(ids, tgt)}, copy=True)
    return g, g2


def _symmetry_on_other_graphs(ctx, case, pg, g, cls, brng):
    """'symmetric on all graphs': a == b and b == a agree for partners that are NOT renamings too - a slightly different
    graph, the same skeleton without (or with other) reaction roles, and both seen through a base class (copy-
    construction keeps bond attributes such as 'reaction' that the base class does not interpret)"""
    from ..snapshot import classes

    partners = []
    r = gen.mutate(brng, pg)
    if r:
        partners.append(("mutated:" + r[0], r[1]))
    if cls in ("CondensedReactionGraph", "StereoCondensedReactionGraph") and any("reaction" in v for v in pg["bonds"].values()):
        plain = sem.pg_copy(pg)
        for v in plain["bonds"].values():
            v.pop("reaction", None)
        plain["achange"], plain["bchange"] = {}, {}
        partners.append(("roles-stripped", plain))
    bases = {"MolGraph": [], "StereoMolGraph": ["MolGraph"], "CondensedReactionGraph": ["MolGraph"], "StereoCondensedReactionGraph": ["StereoMolGraph", "CondensedReactionGraph", "MolGraph"]}[cls]
    for what, hp in partners:
        try:
            h = build(sem.pg_relabel(hp, gen.random_bijection(brng, hp)) if brng.random() < 0.5 else hp, rng=brng)
        except Exception:  # noqa: BLE001
            continue
        pairs = [("same-class", g, h)]
        if bases:
            B = classes()[brng.choice(bases)]
            pairs.append((f"as-{B.__name__}", B(g), B(h)))
        for tag, x, y in pairs:
            ctx.count("symmetry_checks")
            try:
                r1, r2 = (x == y), (y == x)
            except Exception as e:  # noqa: BLE001
                ctx.violate(f"C01/eq-raises:{type(e).__name__}/{cls}/symmetry/{tag}/{what.split(':')[0]}", f"== raised {e!r} ({tag}, partner {what})", case)
                continue
            if r1 is not r2:
                ctx.violate(f"C01/eq-asymmetric/{cls}/{tag}/{what.split(':')[0]}", f"a == b is {r1} but b == a is {r2} ({tag}; partner: {what}; {len(pg['atoms'])} atoms)", case)
            if r1 is not r2 or r1:
                ctx.count("symmetry_checks_equal_or_asymmetric")


def check_case(ctx, case):
    pg = case_pg(case)
    if "scale" in case:
        ctx.count("scale_cases")
    if "high_coordination" in case:
        ctx.count("high_coordination_cases")
    cls, variant = case["cls"], case["variant"]
    m = {a: b for a, b in case["idmap"]} if "idmap" in case else gen.random_bijection(random.Random(case["bseed"] + 1), pg)
    brng = random.Random(case["bseed"])
    feats = features(pg)
    fkey = "+".join(feats) or "plain"
    try:
        g, g2 = _variant(pg, variant, brng, m)
    except Exception as e:  # noqa: BLE001  (building the variant through the public API failed)
        ctx.violate(f"C01/variant-raises:{type(e).__name__}/{cls}/{variant}/{fkey}", f"constructing the {variant} variant raised {e!r}", case)
        ctx.case()
        return
    nontrivial = len(pg["atoms"]) >= 2 and len(pg["bonds"]) >= 1
    ctx.case((sem.canon_key(pg), variant), nontrivial)
    if pg["achange"] or pg["bchange"]:
        ctx.count("with_changes")
    descs = list(pg["astereo"].values()) + list(pg["bstereo"].values()) + [d for v in list(pg["achange"].values()) + list(pg["bchange"].values()) for d in v.values()]
    if any(None in d[1] for d in descs):
        ctx.count("with_placeholder")
    if any(d[2] is None for d in descs):
        ctx.count("with_unspecified")
    if len(pg["atoms"]) >= 20:
        ctx.count("large_graphs")
    if "empty" in feats:
        ctx.count("empty_graph")
    if "isolated" in feats:
        ctx.count("isolated_atoms")
    if len(sem.pg_components(pg)) > 1:
        ctx.count("disconnected")
    obs = (("a==b", lambda: g == g2), ("b==a", lambda: g2 == g), ("a.is_isomorphic(b)", lambda: g.is_isomorphic(g2)), ("a==a", lambda: g == g), ("b==b", lambda: g2 == g2))
    for name, f in obs:
        try:
            r = f()
        except Exception as e:  # noqa: BLE001
            ctx.violate(f"C01/eq-raises:{type(e).__name__}/{cls}/{variant if name not in ('a==a',) else 'reflexive'}/{fkey}", f"{name} raised {e!r} for a {variant} variant of a {cls} with {len(pg['atoms'])} atoms", case)
            continue
        ctx.count("eq_observed")
        if r is not True:
            ctx.violate(f"C01/eq-miss/{cls}/{variant if name not in ('a==a', 'b==b') else 'reflexive'}/{fkey}", f"{name} returned {r!r} for a {variant} variant of a {cls} with {len(pg['atoms'])} atoms", case)
    if "scale" not in case and "high_coordination" not in case and len(pg["atoms"]) <= 40 and brng.random() < 0.3:
        _symmetry_on_other_graphs(ctx, case, pg, g, cls, brng)
    # harness guard: the variants really are the same graph (independent enumerator, 5 %)
    if brng.random() < 0.05 and len(pg["atoms"]) <= 12:
        try:
            a, b = snap(g), snap(g2)
            if all(d[2] is not None for d in descs):
                assert sem.isomorphic(a, b, budget=300000), "harness: variant is not isomorphic to the original"
            ctx.count("harness_crosscheck")
        except TimeoutError:
            pass
    ctx.sample({"class": cls, "variant": variant, "graph": case_graph_for_sample(case), "idmap": case.get("idmap", [])[:6]})
