"""C12 - RDKit import depends on the molecule, not on its representation."""
from __future__ import annotations

import itertools
import random

from .. import sem
from ..snapshot import snap

LEVEL = "exploration"
RULE = (
    "RDKit molecules with explicit hydrogens: an organic stereo corpus (every stereoisomer of ~45 skeletons with "
    "tetrahedral centres incl. lone-pair centres, E/Z and ring double bonds, aromatics), single-centre complexes for all "
    "permutation labels (@SP1-3, @TB1-20, @OH1-30, tetrahedral @/@@, E/Z); representations: Chem.RenumberAtoms with random "
    "permutations, random SMILES spellings (doRandom) re-parsed, both combined, atom-map numbers; converter options: all 8 "
    "combinations of stereo_complete / resonance / lone_pair_stereo. A spelling is used only if RDKit round-trips it to the "
    "same canonical isomeric SMILES. Oracle: same isomer => real == True and equal hashes (+ labelled snapshot relation "
    "for renumbering; map-number import == index import renamed); different labels of a centre with pairwise distinct "
    "ligands => pairwise unequal, decided by the real == and by the reference enumerator on snapshots. Non-trivial: >= 1 "
    "specified stereo element and a changed atom or neighbour order; distinct by (canonical isomeric SMILES, representation "
    "kind, option set)."
)
ASSUMPTIONS = ["RDKit SMILES parser / writer / RenumberAtoms (self-consistency measured per case; inconsistent spellings are skipped and counted)"]
ANCHORS = [
    "stereomolgraph.rdmol2graph:RDMol2StereoMolGraph.smg_from_rdmol",
    "stereomolgraph.rdmol2graph:RDMol2StereoMolGraph.__call__",
    "stereomolgraph.rdmol2graph:mol_graph_from_rdmol",
    "stereomolgraph.rdmol2graph:RDMol2StereoMolGraph.smg_from_rdmol#CHI_SQUAREPLANAR",
    "stereomolgraph.rdmol2graph:RDMol2StereoMolGraph.smg_from_rdmol#tbp_order = ",
    "stereomolgraph.rdmol2graph:RDMol2StereoMolGraph.smg_from_rdmol#order = self._oct_atom_order_permutation_dict",
    "stereomolgraph.rdmol2graph:RDMol2StereoMolGraph.smg_from_rdmol#invert = {",
    "stereomolgraph.rdmol2graph:RDMol2StereoMolGraph.smg_from_rdmol#rings.sort",
    "stereomolgraph.rdmol2graph:RDMol2StereoMolGraph.smg_from_rdmol#(*stereo_atoms, None)",
    "stereomolgraph.rdmol2graph:RDMol2StereoMolGraph.smg_from_rdmol#neighbors_begin_with_none = ",
]
REQUIRED_ANCHORS = ANCHORS
REQUIRED = ["pairs_same_isomer", "label_sets", "mapnum_imports", "kind:renumber", "kind:respell", "kind:both", "options:8", "labels:SP", "labels:TB", "labels:OH", "labels:TET", "labels:EZ", "molecules_over_256_atoms", "kekule_spellings", "converter_reused"]
CASE_TIMEOUT = 120
SKELETONS = [
    "CC(O)F", "CC(N)C(=O)O", "FC=CCl", "CC1CCC(C)CC1", "OCC(O)C(O)C=O", "NC(CS)C(=O)O", "CS(=O)CC", "ClC(Br)=C(F)I", "CC(Cl)C(Br)C", "CC=CC(C)O",
    "CC(F)C=CC", "C1CC1C", "CC1OC1C", "FC(Cl)Br", "CC(C)C(N)C(O)=O", "OC1C=CC1", "CC=CC=CC", "C1=CC(F)CCC1", "CN=CC", "CC(=NO)C",
    "CP(=O)(O)CC", "CC(O)c1ccccc1", "c1ccccc1C=CC", "OC(=O)C=CC(=O)O", "CC(F)(Cl)Br", "C1CCC2CCCCC2C1", "CC(O)C(O)C", "NC(C)C(N)C", "C=C(C)C(C)Cl", "SC(C)CC",
    "CC(C)=CC(C)Br", "O=C1CCC(C)C1", "CC1=CC(C)CC1", "c1cc[nH]c1", "Cn1c(=O)c2c(ncn2C)n(C)c1=O", "CC(Cl)=C(Cl)C", "C[N+](C)(CC)C(C)O", "CC(O)C#N", "FC(F)C(Cl)I", "C(F)(Cl)=C=C(F)Cl",
    "OC(C)C=CCl", "CC(N)=O", "CSC(C)N", "ClC=CC=CBr", "CC(Br)CC(Cl)C",
    # strained small rings: a ring atom is a substituent of both ends of the double bond, exocyclic angles of ~150 degrees
    "C1=CC1", "CC1=CC1", "CC1(C)C=C1", "CC1(CC)C=C1C", "O=C1C=C1", "C1=CCC1", "C=C1CC1", "CC1=C(C)C1", "C1C2C1C2", "CC1=NC1C", "C12C3C4C1C5C2C3C45", "C1=CC2CC2C1", "FC1=CC1Cl",
    # delocalised ions and push-pull systems: several equally weighted resonance structures, whose order in RDKit's
    # resonance supplier depends on the atom numbering
    "CC(N)=[NH2+]", "NC(N)=[NH2+]", "C=C[CH2+]", "C=C[O-]", "CC1=[NH+]CCN1", "CN(C)C=[N+](C)C", "C[N+](=O)[O-]", "CC(=O)[O-]", "c1cc[nH+]cc1", "CN=[N+]=[N-]", "[NH3+]CC([O-])=O", "C1=CN=NC1", "CC(=O)C=CN", "CC(C)=[NH+]C(C)C",
    # four-coordinate heteroatom stereocentres (no lone pair): quaternary ammonium, N-oxide, phosphonium, phosphine
    # oxide, sulfoximine, silane - labelled by RDKit like carbon centres
    "CC[N+](C)(CCC)CC(C)F", "C[N+]1(CC)CCCC1C", "CC[N+](C)([O-])CCC", "C=CC[N+](C)(Cc1ccccc1)c1ccccc1", "CC[P+](C)(CCC)c1ccccc1", "CCP(=O)(C)c1ccccc1",
    "CCS(C)(=O)=NC", "CC[Si](C)(F)Cl", "C[N+]12CCC(CC1)C(O)C2",
    # unsymmetrically substituted aromatic rings next to stereo units (the two Kekule forms are not related by a symmetry)
    "CC(F)c1c(C)cccc1", "FC=Cc1ccccc1C", "CC(O)c1ccncc1C", "CC(Cl)c1ccc2ccccc2c1", "CC(N)c1c[nH]c2ccccc12", "CC(F)c1ccc(C=CC)o1",
]
SP_T = "F[Pt@SP{}](Cl)(Br)I"
TB_T = "F[As@TB{}](Cl)(Br)(I)N"
OH_T = "F[Co@OH{}](Cl)(Br)(I)(N)S"
OPTS = list(itertools.product([False, True], repeat=3))
_cache: dict = {}


def isomers(skel):
    from rdkit import Chem
    from rdkit.Chem.EnumerateStereoisomers import EnumerateStereoisomers, StereoEnumerationOptions

    if skel not in _cache:
        m = Chem.MolFromSmiles(skel)
        opts = StereoEnumerationOptions(unique=True, maxIsomers=16)
        _cache[skel] = [Chem.MolToSmiles(x) for x in EnumerateStereoisomers(m, options=opts)]
    return _cache[skel]


def _fused_alkene(rng):
    """bicyclic alkene whose double bond is the fusion bond of two rings of 4..11 atoms (ring sizes on both sides of every
    'small ring => cis' threshold), with a few substituents that break the symmetry"""
    from rdkit import Chem

    a, b = rng.randint(4, 11), rng.randint(4, 11)
    rw = Chem.RWMol()
    x, y = rw.AddAtom(Chem.Atom(6)), rw.AddAtom(Chem.Atom(6))
    rw.AddBond(x, y, Chem.BondType.DOUBLE)
    chain_atoms = []
    for size in (a, b):
        prev = x
        for _ in range(size - 2):
            c = rw.AddAtom(Chem.Atom(6))
            rw.AddBond(prev, c, Chem.BondType.SINGLE)
            chain_atoms.append(c)
            prev = c
        rw.AddBond(prev, y, Chem.BondType.SINGLE)
    for c in rng.sample(chain_atoms, min(len(chain_atoms), rng.randint(0, 2))):
        s = rw.AddAtom(Chem.Atom(rng.choice([6, 9, 8, 17])))
        rw.AddBond(c, s, Chem.BondType.SINGLE)
    m = rw.GetMol()
    Chem.SanitizeMol(m)
    return Chem.MolToSmiles(m)


def gen_cases(ctx):
    rng = ctx.rng
    nsk = 0
    n = ctx.n(7200, 90000)
    kinds = ["renumber", "respell", "both"]
    for i in range(n):
        fam = i % 8
        if fam == 3 and (i // 8) % 3 == 0:  # double bond shared by two rings of 4..11 atoms
            from .. import molgen

            skel = _fused_alkene(rng)
            iso = molgen.stereoisomers(skel, rng, max_isomers=4)
            if not iso:
                continue
            yield {"kind": "same", "smiles": iso[rng.randrange(len(iso))], "variant": kinds[(i // 8) % 3], "opt": (i // 24) % 8, "vseed": rng.randrange(1 << 30), "fused_alkene": True}
            continue
        if fam == 4:  # random molecule (rings 3..12, fused / spiro / bridged, many centres, N / P / S lone-pair centres)
            from .. import molgen

            skel = molgen.random_smiles(rng, n_heavy=(4, 16) if ctx.tier == "quick" else (4, 26))  # (molgen rejects anti-Bredt alkenes: no consistent ring-cis arrangement exists for them)
            iso = molgen.stereoisomers(skel, rng) if skel else []
            if not iso:
                continue
            smi = iso[rng.randrange(len(iso))]
            yield {"kind": "same", "smiles": smi, "variant": kinds[(i // 8) % 3], "opt": (i // 24) % 8, "vseed": rng.randrange(1 << 30), "random_molecule": True}
            continue
        if fam < 5:
            skel = SKELETONS[(nsk * ctx.nshards + ctx.shard) % len(SKELETONS)]  # jointly, the shards walk through the whole list
            nsk += 1
            iso = isomers(skel)
            smi = iso[rng.randrange(len(iso))]
        elif fam == 5:
            smi = SP_T.format(rng.randint(1, 3))
        elif fam == 6:
            smi = TB_T.format(rng.randint(1, 20))
        else:
            smi = OH_T.format(rng.randint(1, 30))
        yield {"kind": "same", "smiles": smi, "variant": kinds[(i // 8) % 3], "opt": (i // 24) % 8, "vseed": rng.randrange(1 << 30)}
    # molecules with more than 256 atoms (atom indices beyond CPython's small-int cache, beyond int8 ...)
    big = ["C/C=C/" + "C" * 86, "C/C=C\\" + "C" * 86, "C" * 40 + "/C=C/" + "C" * 44, "C[C@H](F)" + "C" * 84 + "/C=C\\C", "F/C=C/" + "C" * 60 + "/C=C\\Cl" + "C" * 20]
    for j in range(ctx.n(320, 4000)):
        yield {"kind": "same", "smiles": big[(j + ctx.shard) % len(big)], "variant": ("renumber", "both")[j % 2], "opt": (j // 2 + ctx.shard) % 8, "vseed": rng.randrange(1 << 30), "big": True}
    sets = ["SP", "TB", "OH", "TET", "EZ"]
    for j in range(ctx.n(80, 2000)):
        yield {"kind": "labels", "set": sets[(j * ctx.nshards + ctx.shard) % 5], "opt": rng.choice([1, 3, 5, 7]), "vseed": rng.randrange(1 << 30)}
    for j in range(ctx.n(160, 4000)):
        skel = SKELETONS[rng.randrange(len(SKELETONS))]
        iso = isomers(skel)
        yield {"kind": "mapnum", "smiles": rng.choice(iso + [SP_T.format(2), TB_T.format(7), OH_T.format(11)]), "opt": rng.randrange(8), "vseed": rng.randrange(1 << 30)}


def _conv(opt, mapnum=False):
    from stereomolgraph.rdmol2graph import RDMol2StereoMolGraph

    sc, res, lp = OPTS[opt]
    return RDMol2StereoMolGraph(stereo_complete=sc, resonance=res, lone_pair_stereo=lp, use_atom_map_number=mapnum)


def _mol(smi):
    from rdkit import Chem

    m = Chem.MolFromSmiles(smi)
    return Chem.AddHs(m) if m is not None else None


def _parse_keep_h(smi):
    from rdkit import Chem

    ps = Chem.SmilesParserParams()
    ps.removeHs = False
    return Chem.MolFromSmiles(smi, ps)


def _variant(m, kind, rng):
    """returns (variant mol, old->new index map or None)"""
    from rdkit import Chem

    if kind == "renumber":
        order = list(range(m.GetNumAtoms()))
        rng.shuffle(order)
        return Chem.RenumberAtoms(m, order), {old: new for new, old in enumerate(order)}
    s = Chem.MolToRandomSmilesVect(m, 1, randomSeed=rng.randrange(1, 1 << 30))[0]  # seeded: replayable
    m2 = _parse_keep_h(s)
    if m2 is None:
        return None, None
    if kind == "both":
        order = list(range(m2.GetNumAtoms()))
        rng.shuffle(order)
        m2 = Chem.RenumberAtoms(m2, order)
    return m2, None


def _n_stereo(m):
    from rdkit import Chem

    n = sum(1 for a in m.GetAtoms() if a.GetChiralTag() != Chem.ChiralType.CHI_UNSPECIFIED)
    n += sum(1 for b in m.GetBonds() if b.GetStereo() not in (Chem.BondStereo.STEREONONE, Chem.BondStereo.STEREOANY))
    return n


def _unspecified_stereo(m):
    from rdkit import Chem

    try:
        return [e for e in Chem.FindPotentialStereo(m) if e.specified == Chem.StereoSpecified.Unspecified]
    except Exception:  # noqa: BLE001
        return []


def _klass(m):
    from rdkit import Chem

    tags = {str(a.GetChiralTag()) for a in m.GetAtoms() if a.GetChiralTag() != Chem.ChiralType.CHI_UNSPECIFIED}
    for t, name in (("CHI_SQUAREPLANAR", "SquarePlanar"), ("CHI_TRIGONALBIPYRAMIDAL", "TrigonalBipyramidal"), ("CHI_OCTAHEDRAL", "Octahedral")):
        if t in tags:
            return name
    for a in m.GetAtoms():
        if sum(1 for b in a.GetBonds() if b.GetBondType() == Chem.BondType.DOUBLE) >= 2 and a.GetDegree() == 2:
            return "cumulated-double-bond"
    return "organic"


def check_case(ctx, case):
    from rdkit import Chem

    rng = random.Random(case["vseed"])
    if case["kind"] == "labels":
        return _labels(ctx, case, rng)
    m1 = _mol(case["smiles"])
    if m1 is None:
        ctx.count("skipped:rdkit-parse")
        return
    if case["kind"] == "mapnum":
        return _mapnum(ctx, case, m1, rng)
    kind = case["variant"]
    m2, old2new = _variant(m1, kind, rng)
    if m2 is None or Chem.MolToSmiles(m2) != Chem.MolToSmiles(m1) or m2.GetNumAtoms() != m1.GetNumAtoms() or _n_stereo(m2) != _n_stereo(m1):
        # (the last test: RDKit sometimes writes a random SMILES with "conflicting single bond directions", re-reads it
        # without the E/Z labels, and its canonical SMILES does not show the loss for large-ring bonds)
        ctx.count("skipped:rdkit-not-self-consistent")
        return
    opt = case["opt"]
    klass = _klass(m1)
    if OPTS[opt][1] and any(a.GetIsAromatic() for a in m1.GetAtoms()) and rng.random() < 0.6:
        # the same molecule as RDKit holds it without aromaticity perception (read with sanitize=False, from InChI, or
        # kekulised with cleared flags): rings spelled as alternating single / double bonds; which Kekule form is
        # spelled depends on the atom order. With resonance on, every spelling is the same molecule. (Both partners are
        # taken in this representation: a molecule with aromatic flags and one without are different RDKit inputs - the
        # importer reads the flags - and comparing them is not a renumbering or respelling.)
        try:
            m1, m2 = Chem.Mol(m1), Chem.Mol(m2)
            Chem.Kekulize(m1, clearAromaticFlags=True)
            Chem.Kekulize(m2, clearAromaticFlags=True)
            # RDKit's resonance enumeration is trusted, but on flag-less charged rings (pyridinium) it returns one or two
            # Kekule structures depending on the atom order; such a pair is not a test of the importer
            n1, n2 = (len(Chem.ResonanceMolSupplier(x, Chem.KEKULE_ALL)) for x in (m1, m2))
            if n1 != n2:
                ctx.count("skipped:rdkit-resonance-not-self-consistent")
                return
            kind = kind + "+kekule"
            ctx.count("kekule_spellings")
        except Exception:  # noqa: BLE001
            ctx.count("skipped:rdkit-kekulize")
            return
    ctx.count("pairs_same_isomer")
    if m1.GetNumAtoms() > 256:
        ctx.count("molecules_over_256_atoms")
    ctx.count(f"kind:{kind}")
    ctx.count(f"options:{len(OPTS)}" if True else "")
    ctx.count(f"opt:{opt}")
    ctx.case((Chem.MolToSmiles(m1), kind, opt), _n_stereo(m1) >= 1)
    okey = "sc=%d,res=%d,lp=%d" % tuple(int(x) for x in OPTS[opt])
    try:
        g1, g2 = _conv(opt)(m1), _conv(opt)(m2)
    except Exception as e:  # noqa: BLE001
        ctx.violate(f"C12/import-raises:{type(e).__name__}/{klass}/{kind}", f"import raised {e!r} for {case['smiles']} ({okey})", case)
        return
    if rng.random() < 0.3 and m1.GetNumAtoms() <= 120:
        # ONE long-lived converter object that has imported other molecules before (a loop over a data set): what it
        # returns for this molecule - through the call interface and through smg_from_rdmol - must be what a new
        # converter returns
        try:
            conv = _conv(opt)
            for smi_prev in rng.sample(["CCO", "C1CCCCC1", "c1ccccc1C=CC", "C1CC=CCCCC1", "F/C=C/Cl", "C[C@H](F)Cl"], 2):
                conv(_mol(smi_prev))
            hist = [("smg_from_rdmol", conv.smg_from_rdmol(m1), _conv(opt).smg_from_rdmol(m1)), ("call", conv(m1), g1)]
            ctx.count("converter_reused")
            for how, got_, want_ in hist:
                d_ = sem.pg_diff(snap(want_), snap(got_), mode="exact")
                if d_:
                    ctx.violate(f"C12/import-depends-on-converter-history/{klass}/{how}", f"{case['smiles']} ({okey}): a converter that imported other molecules before returns a different graph than a new converter ({how}): {d_[0]}", case)
                    return
        except Exception as e:  # noqa: BLE001
            ctx.violate(f"C12/import-raises:{type(e).__name__}/{klass}/reused-converter", f"{e!r} for {case['smiles']} ({okey})", case)
            return
    def invented_orientation():
        """Mechanism classifier of the recorded finding (stereo_complete=True invents a parity / an orientation for every
        unit RDKit leaves unlabelled). True only if ALL of the following hold:
          * stereo_complete is on;
          * under an atom mapping that respects RDKit's own labels (the renumbering itself, or a chirality-aware
            substructure match for a re-spelling) the two imports have the same atoms and bonds and every descriptor
            that differs sits on a unit without an RDKit label (untagged atom, STEREONONE / STEREOANY bond), has the
            same class and the same ligand set on both sides - i.e. the imports differ in invented parities only;
          * the very same two molecules import to equal graphs (and to a proper renaming) once stereo_complete is
            switched off with all other options unchanged."""
        if not OPTS[opt][0]:
            return False
        mp = old2new
        if mp is None:
            match = m2.GetSubstructMatch(m1, useChirality=True)
            if len(match) != m1.GetNumAtoms():
                return False
            mp = dict(enumerate(match))
        S1, S2 = sem.pg_relabel(snap(g1), mp), snap(g2)
        if set(S1["atoms"]) != set(S2["atoms"]) or set(S1["bonds"]) != set(S2["bonds"]):
            return False
        ndiff = 0
        for key in ("astereo", "bstereo"):
            for k2 in set(S1[key]) | set(S2[key]):
                d1, d2 = S1[key].get(k2), S2[key].get(k2)
                if d1 is not None and d2 is not None and sem.desc_equiv(d1, d2):
                    continue
                if d1 is None or d2 is None or d1[0] != d2[0] or sorted(map(repr, d1[1])) != sorted(map(repr, d2[1])):
                    return False
                if key == "astereo":
                    if m2.GetAtomWithIdx(k2).GetChiralTag() != Chem.ChiralType.CHI_UNSPECIFIED:
                        return False
                else:
                    x, y = tuple(k2)
                    if m2.GetBondBetweenAtoms(x, y).GetStereo() not in (Chem.BondStereo.STEREONONE, Chem.BondStereo.STEREOANY):
                        return False
                    if any(x in r and y in r and len(r) < 8 for r in m2.GetRingInfo().AtomRings()):
                        return False  # cis by the ring rule, not an invented orientation
                ndiff += 1
        if not ndiff:
            return False
        o0 = OPTS.index((False,) + tuple(OPTS[opt][1:]))
        try:
            h1, h2 = _conv(o0)(m1), _conv(o0)(m2)
            if old2new is not None and sem.pg_diff(sem.pg_relabel(snap(h1), old2new), snap(h2), mode="equiv", attrs=False):
                return False
            return bool(h1 == h2)
        except Exception:  # noqa: BLE001
            return False

    if old2new is not None:
        want = sem.pg_relabel(snap(g1), old2new)
        d = sem.pg_diff(want, snap(g2), mode="equiv", attrs=False)
        if d:
            part = d[0].split(":")[0].split("[")[0].split(" of ")[0].replace(" ", "-")
            if part in ("bond_stereo", "atom_stereo") and invented_orientation():
                ctx.count("invented_orientation_cases")
                ctx.violate("C12/same-isomer-unequal/unlabelled-unit/stereo_complete=1", f"{case['smiles']} ({okey}): import of the renumbered molecule is not the renamed import: {'; '.join(d[:2])}", case)
                return
            ctx.violate(f"C12/renumbering-not-a-renaming/{klass}/{part}", f"{case['smiles']} ({okey}): import of the renumbered molecule is not the renamed import: {'; '.join(d[:2])}", case)
            return
    try:
        eq = (g1 == g2) and (g2 == g1)
        h = hash(g1) == hash(g2)
    except Exception as e:  # noqa: BLE001
        ctx.violate(f"C12/eq-raises:{type(e).__name__}/{klass}/{kind}", f"== / hash raised {e!r} for {case['smiles']}", case)
        return
    if not eq and invented_orientation():
        ctx.count("invented_orientation_cases")
        ctx.violate("C12/same-isomer-unequal/unlabelled-unit/stereo_complete=1", f"{case['smiles']} vs {Chem.MolToSmiles(m2, canonical=False)} ({okey}) import to unequal graphs", case)
    elif not eq:
        ctx.violate(f"C12/same-isomer-unequal/{klass}/{kind if klass != 'cumulated-double-bond' else 'stereo_complete=%d' % OPTS[opt][0]}", f"{case['smiles']} vs {Chem.MolToSmiles(m2, canonical=False)} ({okey}) import to unequal graphs", case)
    elif not h:
        ctx.violate(f"C12/same-isomer-hash-differs/{klass}/{kind}", f"{case['smiles']} ({okey}): equal graphs, different hashes", case)
    ctx.sample({"smiles": case["smiles"], "variant": kind, "variant_smiles": Chem.MolToSmiles(m2, canonical=False), "options": okey})


def _labels(ctx, case, rng):
    from rdkit import Chem

    which = case["set"]
    if which == "SP":
        smis = [SP_T.format(k) for k in range(1, 4)]
    elif which == "TB":
        smis = [TB_T.format(k) for k in range(1, 21)]
    elif which == "OH":
        smis = [OH_T.format(k) for k in range(1, 31)]
    elif which == "TET":
        base = rng.choice(["C[C@H](F)Cl", "N[C@@H](C)C(=O)O", "C[S@](=O)CC", "F[C@](Cl)(Br)I", "C[P@](=O)(O)CC"])
        smis = [base, base.replace("@@", "!").replace("@", "@@").replace("!", "@")]
    else:
        a, b = rng.choice([("F/C=C/Cl", "F/C=C\\Cl"), ("C/C=C/C", "C/C=C\\C"), ("C/C(F)=C(/Cl)Br", "C/C(F)=C(\\Cl)Br"), ("C/C=N/O", "C/C=N\\O")])
        smis = [a, b]
    mols = []
    for s in smis:
        m = _mol(s)
        if m is None:
            ctx.count("skipped:rdkit-parse")
            return
        # random representation of each label so that tags / neighbour orders differ
        v, _ = _variant(m, rng.choice(["renumber", "respell", "both"]), rng)
        if v is not None and Chem.MolToSmiles(v) == Chem.MolToSmiles(m):
            m = v
        mols.append(m)
    canon = [Chem.MolToSmiles(m) for m in mols]
    if len(set(canon)) != len(canon):
        ctx.count("skipped:rdkit-considers-labels-identical")
        return
    ctx.count("label_sets")
    ctx.count(f"labels:{which}")
    opt = case["opt"]  # stereo_complete=True variants only: parities fully specified
    try:
        gs = [_conv(opt)(m) for m in mols]
    except Exception as e:  # noqa: BLE001
        ctx.violate(f"C12/import-raises:{type(e).__name__}/labels-{which}", f"import raised {e!r}", case)
        return
    snaps = [snap(g) for g in gs]
    classes_real = []
    for i in range(len(gs)):
        for j in range(i + 1, len(gs)):
            ctx.case((which, i, j, case["vseed"]), True)
            try:
                real = gs[i] == gs[j]
            except Exception as e:  # noqa: BLE001
                ctx.violate(f"C12/eq-raises:{type(e).__name__}/labels-{which}", f"{e!r}", case)
                return
            ref = sem.isomorphic(snaps[i], snaps[j], budget=3_000_000)
            if real or ref:
                classes_real.append((i, j, real, ref))
    if classes_real:
        i, j, real, ref = classes_real[0]
        n_classes = _n_classes(len(gs), [(a, b) for a, b, r, f in classes_real if f])
        ctx.violate(f"C12/different-labels-equal/{which}/{'real+reference' if (real and ref) else 'real-only' if real else 'reference-only'}", f"{smis[i]} and {smis[j]} import to {'equal' if real else 'unequal'} graphs (reference: {'isomorphic' if ref else 'not isomorphic'}); the {len(smis)} labels give {n_classes} distinct graphs", case)
    ctx.sample({"labels": which, "smiles": smis[:4], "n": len(smis)})


def _n_classes(n, pairs):
    parent = list(range(n))

    def f(x):
        while parent[x] != x:
            x = parent[x]
        return x

    for a, b in pairs:
        parent[f(a)] = f(b)
    return len({f(x) for x in range(n)})


def _mapnum(ctx, case, m1, rng):
    from rdkit import Chem
    from stereomolgraph.graphs.mg import MolGraph

    nums = rng.sample(range(1, 5000), m1.GetNumAtoms())
    m = Chem.Mol(m1)
    for a, k in zip(m.GetAtoms(), nums):
        a.SetAtomMapNum(k)
    opt = case["opt"]
    ctx.count("mapnum_imports")
    ctx.case((case["smiles"], "mapnum", opt), True)
    try:
        gi = _conv(opt)(m1)
        gm = _conv(opt, mapnum=True)(m)
        mgi = MolGraph.from_rdmol(m1)
        mgm = MolGraph.from_rdmol(m, use_atom_map_number=True)
    except Exception as e:  # noqa: BLE001
        ctx.violate(f"C12/import-raises:{type(e).__name__}/mapnum", f"import by atom-map number raised {e!r} for {case['smiles']}", case)
        return
    ren = {i: k for i, k in enumerate(nums)}
    for name, a, b in (("StereoMolGraph", gi, gm), ("MolGraph", mgi, mgm)):
        d = sem.pg_diff(sem.pg_relabel(snap(a), ren), snap(b), mode="same", attrs=False)
        if d:
            part = d[0].split(":")[0].split("[")[0].split(" of ")[0].replace(" ", "-")
            ctx.violate(f"C12/mapnum-import-differs/{name}/{part}", f"{case['smiles']}: import by map number is not the renamed index import: {'; '.join(d[:2])}", case)
            return
