"""C04 - stereodescriptor identity is spatial identity (finite domain, enumerated).

Oracle: sem.PROPER / sem.IMPROPER (Kabsch-derived rotation groups of the idealised
figures), never the repository's PERMUTATION_GROUP tables."""
from __future__ import annotations

import itertools
import random

from .. import sem
from ..snapshot import mk_desc

LEVEL = "exploration"
RULE = (
    "for each of the 6 descriptor classes: every ordered pair (s,t) of ligand orderings "
    "(thorough: all; quick: s in identity+40 seeded orderings, t all) x every parity pair of the "
    "class domain, for the placeholder-free pattern and for every single-None pattern (and the "
    "importer's two-None patterns for bond classes); each pair runs the real __eq__ both ways, "
    "__hash__, invert. A case is non-trivial when s != t or the parities differ; all enumerated "
    "(class, pattern, s, t, p, p') tuples are distinct by construction and are counted, not hashed."
)
ASSUMPTIONS = [
    "idealised figures of sem.py (positions as documented in the class docstrings and used by xyz2graph)",
    "Kabsch fit tolerance 1e-7 on unit figures",
]
ANCHORS = [
    "stereomolgraph.stereodescriptors:_StereoMixin.__eq__",
    "stereomolgraph.stereodescriptors:_StereoMixin.__hash__",
    "stereomolgraph.stereodescriptors:_StereoMixin.invert",
    "stereomolgraph.stereodescriptors:_StereoMixin._perm_atoms",
    "stereomolgraph.stereodescriptors:_StereoMixin._inverted_atoms",
]
REQUIRED_ANCHORS = ANCHORS[:3]
REQUIRED = ["eq_calls", "hash_calls", "invert_calls", "none_parity_pairs"]
EXHAUSTIVE = {"thorough": True, "quick": False}
CASE_TIMEOUT = 600


def patterns(cls):
    n = sem.NPOS[cls]
    pats = [()]
    if cls in sem.ATOM_CENTRED:
        pats += [(i,) for i in range(1, n)]
    else:
        pats += [(i,) for i in (0, 1, 4, 5)]
        pats += [(1, 5), (0, 4), (1, 4), (0, 5)]
    return pats


def orderings(cls, labels, pattern):
    """all distinct tuples over the label multiset (None at 'pattern' positions of the base)."""
    base = list(labels)
    for i in pattern:
        base[i] = None
    if cls in sem.ATOM_CENTRED:
        seen, out = set(), []
        for perm in itertools.permutations(base[1:]):
            t = (base[0], *perm)
            if t not in seen:
                seen.add(t)
                out.append(t)
        return out
    seen, out = set(), []
    for perm in itertools.permutations(base):
        if perm[2] is None or perm[3] is None:
            continue  # a bond needs two atoms
        if perm not in seen:
            seen.add(perm)
            out.append(perm)
    return out


def gen_cases(ctx):
    rng = random.Random(f"{ctx.seed}/C04")
    cases = []
    for cls in sem.CLASSES:
        n = sem.NPOS[cls]
        for pat, special in [(p_, sp) for p_ in patterns(cls) for sp in (False, True, "wide")]:
            labels = rng.sample(range(-40, 400), n)
            if special == "wide":
                # database-style keys: neighbouring integers beyond 2**53 (not representable as distinct doubles), around
                # the int64 / uint64 limits, mixed with small and negative ids
                base = rng.choice([10**16, 2**53, 2**62, 2**63 - 2, 2**63, 2**64 - 4, 2**64, 10**30])
                k = rng.randint(2, n)
                labels = [base + j for j in range(k)] + rng.sample(range(-40, 400), n - k)
                rng.shuffle(labels)
            elif special:
                # ids that double as sentinels in careless code: 0 (falsy) and -1 ("not found" / "no atom")
                pos = rng.sample(range(n), 2)
                labels = [x for x in labels if x not in (0, -1, -2)] + rng.sample(range(400, 500), 3)
                labels = labels[:n]
                labels[pos[0]], labels[pos[1]] = rng.choice([(0, -1), (-1, -2), (-1, -2), (7, 7 + 2**61 - 1)])  # falsy / sentinel ids; ids with colliding hashes
            m = len(orderings(cls, labels, pat))
            if ctx.tier == "quick":
                idx = sorted({0, *rng.sample(range(m), min(m, 40))})
            else:
                idx = list(range(m))
            chunk = 12 if m > 200 else 24
            for i in range(0, len(idx), chunk):
                cases.append({"cls": cls, "labels": labels, "pattern": list(pat), "s_idx": idx[i : i + chunk]})
    rng.shuffle(cases)
    for i, c in enumerate(cases):
        if i % ctx.nshards == ctx.shard:
            yield c


def _elem(cls, s, t):
    """position permutation g with t == apply(s, g) if the labels are distinct, else None"""
    if len(set(s)) != len(s):
        return None
    pos = {x: i for i, x in enumerate(s)}
    try:
        return tuple(pos[x] for x in t)
    except KeyError:
        return None


def _key(cls, s, t, p, q, real, pattern):
    g = _elem(cls, s, t)
    if g is None:
        rel = "placeholder-dup"
    elif g in sem.PROPER[cls] and g in sem.IMPROPER[cls]:
        rel = "planar-sym"
    elif g in sem.PROPER[cls]:
        rel = "proper"
    elif g in sem.IMPROPER[cls]:
        rel = "improper"
    else:
        rel = "no-sym"
    swap = ""
    if cls in sem.BOND_CENTRED and g is not None:
        swap = "/endswap" if g[2] == 3 else "/noswap"
    par = "unspec" if p is None or q is None else ("same-parity" if p == q else "opposite-parity")
    return f"C04/eq/{cls}{swap}/{rel}/{par}/real={real}/placeholders={len(pattern)}"


def check_case(ctx, case):
    cls, labels, pat = case["cls"], case["labels"], tuple(case["pattern"])
    T = orderings(cls, labels, pat)
    dom = sem.PARITY_DOMAIN[cls]
    P, I = sem.PROPER[cls], sem.IMPROPER[cls]
    chiral = sem.CHIRAL[cls]
    # real objects and hashes for every (t, parity)
    objs = {(t, p): mk_desc((cls, t, p)) for t in T for p in (*dom, None)}
    hashes = {}
    for k, o in objs.items():
        try:
            hashes[k] = hash(o)
        except Exception as e:  # noqa: BLE001
            hashes[k] = ("raised", type(e).__name__)
            ctx.violate(f"C04/hash-raises/{cls}/{type(e).__name__}", f"hash({o!r}) raised {e!r}", case)
        ctx.count("hash_calls")
    n_eval = n_nt = 0
    for si in case["s_idx"]:
        s = T[si]
        orbP = {sem.apply(s, g) for g in P}
        orbI = {sem.apply(s, g) for g in I}
        for p in dom:
            ds = objs[(s, p)]
            for t in T:
                for q in dom:
                    want = (p == q and t in orbP) or (p == -q and t in orbI)
                    dt = objs[(t, q)]
                    try:
                        r1 = ds == dt
                        r2 = dt == ds
                    except Exception as e:  # noqa: BLE001
                        ctx.violate(f"C04/eq-raises/{cls}/{type(e).__name__}", f"{ds!r} == {dt!r} raised {e!r}", case)
                        continue
                    n_eval += 1
                    if s != t or p != q:
                        n_nt += 1
                    if r1 is not want or r2 is not want:
                        bad = r1 if r1 is not want else r2
                        ctx.violate(_key(cls, s, t, p, q, bad, pat), f"{ds!r} == {dt!r}: real {r1}/{r2} (both directions), geometric oracle {want}", case)
                    if want and hashes[(s, p)] != hashes[(t, q)]:
                        ctx.violate(f"C04/hash/{cls}/equal-arrangement-different-hash/placeholders={len(pat)}", f"hash({ds!r}) != hash({dt!r}) although they denote the same arrangement", case)
            # invert
            try:
                inv = ds.invert()
                inv2 = inv.invert()
                ctx.count("invert_calls")
                if (type(inv2).__name__, tuple(inv2.atoms), inv2.parity) != (cls, s, p):
                    ctx.violate(f"C04/invert/{cls}/double-inversion-not-identity", f"{ds!r}.invert().invert() = {inv2!r}", case)
                if type(inv).__name__ != cls:
                    ctx.violate(f"C04/invert/{cls}/class-changed", f"{ds!r}.invert() = {inv!r}", case)
                want_inv = (cls, s, -p if chiral else p)
                got_inv = (cls, tuple(inv.atoms), inv.parity)
                if not sem.desc_equiv(want_inv, got_inv):
                    ctx.violate(f"C04/invert/{cls}/not-the-mirror-image", f"{ds!r}.invert() = {inv!r}", case)
                same = inv == ds
                # duplicate placeholders can make a chiral-class arrangement its own mirror image
                self_mirror = sem.desc_equiv((cls, s, p), want_inv)
                if chiral and same and not self_mirror:
                    ctx.violate(f"C04/invert/{cls}/chiral-equals-own-mirror-image", f"{ds!r}.invert() == itself", case)
                if (not chiral or self_mirror) and not same:
                    ctx.violate(f"C04/invert/{cls}/achiral-differs-from-mirror-image", f"{ds!r}.invert() != itself", case)
            except Exception as e:  # noqa: BLE001
                ctx.violate(f"C04/invert-raises/{cls}/{type(e).__name__}", f"{ds!r}.invert() raised {e!r}", case)
        # unspecified parity: equals every descriptor over the same atoms, nothing else
        dn = objs[(s, None)]
        for t in T[:: max(1, len(T) // 60)]:
            for q in (*dom, None):
                dt = objs[(t, q)]
                try:
                    r1, r2 = dn == dt, dt == dn
                except Exception as e:  # noqa: BLE001
                    ctx.violate(f"C04/eq-raises/{cls}/unspecified/{type(e).__name__}", f"{dn!r} == {dt!r} raised {e!r}", case)
                    continue
                n_eval += 1
                n_nt += 1
                ctx.count("none_parity_pairs")
                if r1 is not True or r2 is not True:
                    ctx.violate(f"C04/eq/{cls}/unspecified-not-equal-over-same-atoms", f"{dn!r} == {dt!r}: {r1}/{r2}", case)
                if q is None and hashes[(s, None)] != hashes[(t, None)]:
                    ctx.violate(f"C04/hash/{cls}/unspecified-equal-different-hash", f"hash({dn!r}) != hash({dt!r})", case)
        # ... and not a descriptor over other atoms
        other = tuple((x + 1000) if (x is not None and i == len(s) - 1) else x for i, x in enumerate(s))
        if other != s:
            do = mk_desc((cls, other, dom[0]))
            try:
                if (dn == do) or (do == dn):
                    ctx.violate(f"C04/eq/{cls}/unspecified-equals-other-atoms", f"{dn!r} == {do!r}", case)
            except Exception as e:  # noqa: BLE001
                ctx.violate(f"C04/eq-raises/{cls}/unspecified/{type(e).__name__}", f"{dn!r} == {do!r} raised {e!r}", case)
            n_eval += 1
    # descriptors are plain objects with writable attributes: after an in-place change the hash has to follow what ==
    # sees (a memoised hash goes stale). A library that makes the attributes read-only passes by refusing the change.
    for si in case["s_idx"][:3]:
        s = T[si]
        t2 = T[(si + 1) % len(T)]
        for p in dom:
            for q in dom:
                d = mk_desc((cls, s, p))
                try:
                    hash(d)
                    d.parity = q
                    d.atoms = t2
                except (AttributeError, TypeError):
                    ctx.count("descriptors_immutable")
                    continue
                fresh_d = objs[(t2, q)]
                ctx.count("mutated_in_place")
                try:
                    if d == fresh_d and hash(d) != hashes[(t2, q)]:
                        ctx.violate(f"C04/hash/{cls}/stale-after-attribute-change", f"after parity/atoms were reassigned, {d!r} == {fresh_d!r} but the hashes differ", case)
                except Exception as e:  # noqa: BLE001
                    ctx.violate(f"C04/eq-raises/{cls}/after-attribute-change/{type(e).__name__}", f"{e!r}", case)
    ctx.count("eq_calls", 2 * n_eval)
    ctx.bulk(n_eval, n_nt)
    ctx.sample({"class": cls, "labels": labels, "placeholder_positions": list(pat), "s": list(T[case["s_idx"][0]]), "n_orderings_t": len(T), "parities": list(dom)}, cap=1)
    # diagnostic (names the wrong row; not a verdict by itself)
    if not pat:
        import stereomolgraph.stereodescriptors as sd

        table = {tuple(r) for r in getattr(sd, cls).PERMUTATION_GROUP}
        if table != set(P):
            ctx.count(f"diag:{cls}:table_rows_not_proper", len(table - set(P)))
