"""C06 - enantiomer() is the mirror image."""
from __future__ import annotations

import random

from .. import gen, sem
from ..snapshot import DerivationWrong, STEREO, build, build_case, pg_from_json, pg_to_json, snap

LEVEL = "exploration"
RULE = (
    "StereoMolGraph and StereoCondensedReactionGraph instances: random decorated graphs (all six descriptor classes, "
    "placeholders, attributes, stereo changes on atoms and bonds, unspecified parities at a controlled rate), meso "
    "constructions (a chiral half joined to its relabelled mirror image), axis-only graphs (AtropBond as the sole chiral "
    "element), achiral graphs. Observed: e = g.enantiomer(), e.enantiomer(), g == e, snapshots before/after. Oracle: "
    "snapshot(e) == reference mirror image of snapshot(g) (every chiral-class descriptor - atom centred, bond centred, "
    "inside changes - inverted; everything else identical), g untouched, double application restores g; for fully "
    "specified graphs g == e iff the independent reference search finds an isomorphism onto the mirrored snapshot. "
    "Non-trivial: >= 1 chiral-class descriptor; distinct by invariants + descriptor signature + chirality verdict."
)
ASSUMPTIONS = ["reference enumerator and Kabsch-derived descriptor semantics (sem.py)"]
ANCHORS = [
    "stereomolgraph.graphs.smg:StereoMolGraph.enantiomer",
    "stereomolgraph.graphs.scrg:StereoCondensedReactionGraph.enantiomer",
    "stereomolgraph.stereodescriptors:_StereoMixin.invert",
]
REQUIRED_ANCHORS = ANCHORS
REQUIRED = ["enantiomers", "meso_cases", "chiral_cases", "axis_only_cases", "with_bond_changes", "with_atom_changes", "chirality_decided", "with_unspecified", "derived_states", "dangling_descriptor_states", "derived_state_chirality_decided"]
CASE_TIMEOUT = 60


def meso_pg(rng, cls):
    """half + relabelled mirror image of the half, joined by one bond"""
    for _ in range(30):
        half = gen.random_pg(rng, cls, n_range=(3, 7), alphabet=gen.SMALL, p_stereo=0.9, p_change=0.3 if cls != "StereoMolGraph" else 0, p_role=0.2, max_deg=4, allow_isolated=False, id_kind="range", p_invalid=0.0)
        nb = sem.pg_neighbors(half)
        cands = [a for a in half["atoms"] if len(nb[a]) <= 3 and a not in half["astereo"] and a not in half["achange"] and not any(a in b for b in list(half["bstereo"]) + list(half["bchange"]))]
        if not cands:
            continue
        u = rng.choice(cands)
        n = len(half["atoms"])
        m = {a: a + 100 for a in half["atoms"]}
        other = sem.pg_relabel(sem.pg_mirror(half), m)
        g = sem.pg_union([half, other], cls)
        g["bonds"][frozenset((u, m[u]))] = {}
        if len(nb[u]) == 3 and rng.random() < 0.6:
            lig = list(nb[u])
            rng.shuffle(lig)
            par = rng.choice((1, -1))
            g["astereo"][u] = ("Tetrahedral", (u, m[u], *lig), par)
            g["astereo"][m[u]] = ("Tetrahedral", (m[u], u, *[m[x] for x in lig]), -par)
        return sem.pg_relabel(g, gen.random_bijection(rng, g))
    return None


def axis_pg(rng, cls):
    if cls == "StereoCondensedReactionGraph" and rng.random() < 0.4:
        return gen.bond_change_only_pair(rng)[0]  # no changed bond, no atom stereo change: only a bond stereo change
    pg = gen.random_pg(rng, cls, n_range=(6, 10), alphabet=gen.SMALL, p_stereo=0.0, max_deg=3, allow_isolated=False, p_role=rng.choice([0.0, 0.35]))
    nb = sem.pg_neighbors(pg)
    cands = [b for b in pg["bonds"] if all(1 <= len(nb[x] - b) <= 2 for x in b)]
    if not cands:
        return None
    b = rng.choice(sorted(cands, key=sorted))
    x, y = tuple(b)
    d = gen._bond_desc(rng, x, y, nb[x] - {y}, nb[y] - {x}, 0.0)
    d = ("AtropBond", d[1], rng.choice((1, -1)))
    if cls == "StereoCondensedReactionGraph" and rng.random() < 0.5 and "reaction" not in pg["bonds"][b]:
        pg["bchange"][b] = {rng.choice(["BROKEN", "FORMED", "FLEETING"]): d}
    else:
        pg["bstereo"][b] = d
    return pg


def gen_cases(ctx):
    rng = ctx.rng
    n = ctx.n(12000, 120000)
    for i in range(n):
        cls = STEREO[i % 2]
        k = (i // 2) % 10
        if k == 2 and (i // 20) % 2 == 0:
            pg = gen.cis_trans_mixture_pg(rng, cls)
        elif k < 3:
            pg = meso_pg(rng, cls)
        elif k == 3:
            pg = axis_pg(rng, cls)
        elif k == 4:
            pg = gen.random_pg(rng, cls, n_range=(2, 10), alphabet=gen.TINY, p_stereo=0.8, p_none=0.3, attrs=True)
        else:
            pg = gen.random_pg(rng, cls, n_range=(2, 10) if ctx.tier == "quick" else (2, 16), alphabet=rng.choice([gen.TINY, gen.SMALL]), p_stereo=0.8, p_change=0.5, attrs=True, one_sided_bond_desc=0.2)
        if pg is None:
            continue
        yield {"cls": cls, "pg": pg_to_json(pg), "kind": ["meso", "meso", "meso", "axis", "unspecified"][k] if k < 5 else "random", "bseed": rng.randrange(1 << 30)}


def check_case(ctx, case):
    pg = pg_from_json(case["pg"])
    cls = case["cls"]
    try:
        g, via = build_case(pg, case["bseed"])
    except DerivationWrong as e:
        ctx.violate(f"C06/derived-input-differs/{cls}/{e.via}", f"deriving the input graph: {e}", case)
        ctx.case()
        return
    ctx.count(f"via:{via}")
    src = snap(g)
    descs = list(pg["astereo"].values()) + list(pg["bstereo"].values())
    chg_a = [d for v in pg["achange"].values() for d in v.values()]
    chg_b = [d for v in pg["bchange"].values() for d in v.values()]
    alld = descs + chg_a + chg_b
    chiral_descs = [d for d in alld if sem.CHIRAL[d[0]] and d[2] is not None]
    specified = all(d[2] is not None for d in alld)
    ctx.count("enantiomers")
    if chg_b:
        ctx.count("with_bond_changes")
    if chg_a:
        ctx.count("with_atom_changes")
    if not specified:
        ctx.count("with_unspecified")
    axis_only = bool(chiral_descs) and all(d[0] == "AtropBond" for d in chiral_descs)
    if axis_only:
        ctx.count("axis_only_cases")
    try:
        e = g.enantiomer()
    except Exception as ex:  # noqa: BLE001
        ctx.violate(f"C06/enantiomer-raises:{type(ex).__name__}/{cls}", f"enantiomer() raised {ex!r}", case)
        ctx.case()
        return
    d0 = sem.pg_diff(src, snap(g), mode="exact")
    if d0:
        ctx.violate(f"C06/original-modified/{cls}", f"enantiomer() changed the original: {d0[0]}", case)
    want = sem.pg_mirror(src)
    got = snap(e)
    got["achange"] = {k: v for k, v in got["achange"].items() if v}
    got["bchange"] = {k: v for k, v in got["bchange"].items() if v}
    want["achange"] = {k: v for k, v in want["achange"].items() if v}
    want["bchange"] = {k: v for k, v in want["bchange"].items() if v}
    diff = sem.pg_diff(want, got, mode="equiv", attrs=True)
    if diff:
        where = diff[0].split(":")[0].split("[")[0].split(" of ")[0].replace(" ", "-")
        # which descriptor class was not inverted?
        klass = ""
        for key in ("astereo", "bstereo"):
            for k2, d in want[key].items():
                gd = got[key].get(k2)
                if gd is None or not sem.desc_equiv(d, gd):
                    klass = d[0]
        for key in ("achange", "bchange"):
            for k2, v in want[key].items():
                for s, d in v.items():
                    gd = got[key].get(k2, {}).get(s)
                    if gd is None or not sem.desc_equiv(d, gd):
                        klass = d[0]
        ctx.violate(f"C06/not-the-mirror-image/{cls}/{where}/{klass or 'structure'}", f"enantiomer() differs from the mirror image: {'; '.join(diff[:2])}", case)
        ctx.case((sem.canon_key(pg), "bad"), bool(chiral_descs))
        return
    if type(e) is not type(g):
        ctx.violate(f"C06/class-changed/{cls}", f"enantiomer() returned a {type(e).__name__}", case)
    try:
        e2 = e.enantiomer()
        d2 = sem.pg_diff(_ne(src), _ne(snap(e2)), mode="same", attrs=True)
        if d2:
            ctx.violate(f"C06/double-enantiomer-not-identity/{cls}", f"enantiomer().enantiomer(): {d2[0]}", case)
    except Exception as ex:  # noqa: BLE001
        ctx.violate(f"C06/enantiomer-raises:{type(ex).__name__}/{cls}/second", f"second enantiomer() raised {ex!r}", case)
    verdict = "unspecified"
    if specified:
        truth = sem.isomorphic(src, want, budget=2_000_000)
        verdict = "achiral" if truth else "chiral"
        ctx.count("chirality_decided")
        if truth and chiral_descs:
            ctx.count("meso_cases")
        if not truth:
            ctx.count("chiral_cases")
        try:
            r1, r2 = (g == e), (e == g)
        except Exception as ex:  # noqa: BLE001
            ctx.violate(f"C06/eq-raises:{type(ex).__name__}/{cls}", f"g == g.enantiomer() raised {ex!r}", case)
            r1 = r2 = truth
        if r1 is not truth or r2 is not truth:
            ctx.violate(f"C06/chirality-wrong/{cls}/{'equal-but-chiral' if not truth else 'unequal-but-achiral'}/{'axis-only' if axis_only else 'centres'}", f"g == g.enantiomer() is {r1}/{r2}, reference search for an isomorphism onto the mirror image says {truth}", case)
    ctx.case((sem.canon_key(pg), verdict, case["kind"]), bool(chiral_descs))
    ctx.sample({"class": cls, "kind": case["kind"], "chirality": verdict, "graph": case["pg"]})
    _derived_states(ctx, case, g, cls)


def _derived_states(ctx, case, g, cls):
    """states only editing / decomposition reach: a descriptor that has outlived one of its bonds (remove_bond keeps
    descriptors; reactant() / product() of a reaction keep a descriptor on a formed / broken bond). Such a graph is
    still a stereo graph: its enantiomer inverts every chiral descriptor it holds."""
    import random as _r

    rng = _r.Random(case["bseed"] ^ 0x5A5A)
    states = []
    if cls == "StereoCondensedReactionGraph" and rng.random() < 0.5:
        try:
            states.append(("reactant", g.reactant()))
            states.append(("product", g.product()))
        except Exception:  # noqa: BLE001  (C08's subject)
            pass
    if rng.random() < 0.4:
        h = g.copy()
        with_desc = sorted((tuple(sorted(b, key=repr)) for b in list(h.bond_stereo) if h.has_bond(*tuple(b))), key=repr)
        near = sorted((tuple(sorted((c, n), key=repr)) for c, d in h.atom_stereo.items() for n in d.atoms[1:] if n is not None and h.has_bond(c, n)), key=repr)
        pool = with_desc * 3 + near
        if pool:
            x, y = rng.choice(pool)
            h.remove_bond(x, y)
            states.append(("bond-removed", h))
    if cls == "StereoMolGraph" and rng.random() < 0.15 and len(g.atoms) <= 8:
        h = g.copy()
        for b in list(h.bonds):
            h.remove_bond(*tuple(b))
        states.append(("all-bonds-removed", h))
    for tag, h in states:
        src = snap(h)
        dangling = [b for b in src["bstereo"] if b not in src["bonds"]]
        ctx.count("derived_states")
        if dangling:
            ctx.count("dangling_descriptor_states")
        try:
            e = h.enantiomer()
        except Exception as ex:  # noqa: BLE001
            ctx.violate(f"C06/enantiomer-raises:{type(ex).__name__}/{cls}/{tag}", f"enantiomer() of the {tag} state raised {ex!r}", case)
            continue
        want, got = sem.pg_mirror(src), snap(e)
        for S in (want, got):
            S["achange"] = {k: v for k, v in S["achange"].items() if v}
            S["bchange"] = {k: v for k, v in S["bchange"].items() if v}
        diff = sem.pg_diff(want, got, mode="equiv", attrs=True)
        if diff:
            ctx.violate(f"C06/not-the-mirror-image/{cls}/{tag}{'/dangling-descriptor' if dangling else ''}", f"enantiomer() of the {tag} state differs from the mirror image: {'; '.join(diff[:2])}", case)
        if sem.pg_diff(src, snap(h), mode="exact"):
            ctx.violate(f"C06/original-modified/{cls}/{tag}", "enantiomer() changed the original", case)
        # equal to its enantiomer exactly when a bijection onto the mirror image exists - also for these states
        alld = list(src["astereo"].values()) + list(src["bstereo"].values()) + [d for v in list(src["achange"].values()) + list(src["bchange"].values()) for d in v.values()]
        # (only for molecule states: a stereo REACTION graph whose bond descriptor has outlived its bond cannot be
        # compared at all on the pinned code - reactant() re-validates the descriptor and raises ValueError - which is a
        # statement about stereo-invalid reaction graphs, not about enantiomers)
        if not diff and type(h).__name__ == "StereoMolGraph" and len(src["atoms"]) <= 10 and all(d[2] is not None for d in alld):
            try:
                truth = sem.isomorphic(src, want, budget=500_000)
            except TimeoutError:
                continue
            ctx.count("derived_state_chirality_decided")
            try:
                r1, r2 = (h == e), (e == h)
            except Exception as ex:  # noqa: BLE001
                ctx.violate(f"C06/eq-raises:{type(ex).__name__}/{cls}/{tag}", f"state == its enantiomer raised {ex!r}", case)
                continue
            if r1 is not truth or r2 is not truth:
                ctx.violate(f"C06/chirality-wrong/{cls}/{'equal-but-chiral' if not truth else 'unequal-but-achiral'}/{tag}", f"{tag} state == its enantiomer is {r1}/{r2}, reference search for an isomorphism onto the mirror image says {truth}", case)


def _ne(S):
    S = dict(S)
    S["achange"] = {k: v for k, v in S["achange"].items() if v}
    S["bchange"] = {k: v for k, v in S["bchange"].items() if v}
    return S
