"""C20 - XYZ text round-trips and distance connectivity is well-formed."""
from __future__ import annotations

import math
import random

import numpy as np

LEVEL = "exploration"
RULE = (
    "(a) geometries with 1..200 atoms over all 118 elements, coordinates of magnitude 1e-12..1e6, both signs, -0.0, "
    "values that round at the 8th decimal, comments None / '' / printable text with '#', digits, four-column look-alikes, "
    "leading/trailing blanks, non-ASCII: Geometry.from_xyz(geo.xyz_str(comment)) must reproduce elements and every "
    "coordinate within 0.5e-8 (+ulp); (b) random point clouds, molecule-like chains, pairs placed just inside/outside "
    "the cut-off, coincident atoms: BondsFromDistance().array (icontract postcondition + direct oracle) must be a "
    "symmetric 0/1 matrix with zero diagonal whose entries equal [d < 1.2 (r_i + r_j)] recomputed by the harness, "
    "unchanged by a rigid motion and permuted consistently by an atom permutation; MolGraph.from_geometry bonds = upper "
    "triangle. Non-trivial: >=2 atoms or an edge class (single atom, special comment, extreme magnitude); distinct by "
    "(n, element multiset, comment class, magnitude class) resp. (cloud signature, transform)."
)
ASSUMPTIONS = [
    "pairs whose distance lies within a relative band of 1e-9 (same geometry) / 1e-6 (after rigid motion) of the cut-off are not judged (counted as filtered)",
    "comment is one line: characters that str.splitlines treats as line boundaries are not generated",
]
ANCHORS = [
    "stereomolgraph.coords:Geometry.xyz_str",
    "stereomolgraph.coords:Geometry._from_xyz_stream",
    "stereomolgraph.coords:pairwise_distances",
    "stereomolgraph.coords:_DefaultFuncDict.array",
    "stereomolgraph.coords:BondsFromDistance.array",
    "stereomolgraph.graphs.mg:MolGraph.from_atom_types_and_bond_order_matrix",
]
REQUIRED_ANCHORS = ANCHORS
REQUIRED = ["roundtrips", "single_atom", "connectivity_matrices", "contract_evaluations", "rigid_motions", "permutations", "threshold_pairs", "translation_magnitude:1e+06", "comment:fourcol", "comment:nonascii", "comment:linebreak-like", "comment:none", "large_geometries", "foreign_cutoff_overrides", "session_requests", "session_cutoff_edits"]
_contract = {"n": 0}


class ContractBroken(Exception):
    pass


def setup(ctx):
    import icontract
    import stereomolgraph.coords as C

    def well_formed(result):
        _contract["n"] += 1
        r = np.asarray(result)
        return (
            r.ndim == 2
            and r.shape[0] == r.shape[1]
            and np.issubdtype(r.dtype, np.integer)
            and bool(np.all((r == 0) | (r == 1)))
            and bool(np.all(r == r.T))
            and bool(np.all(np.diag(r) == 0))
        )

    def dist_ok(result):
        _contract["n"] += 1
        r = np.asarray(result)
        return bool(np.all(r >= 0)) and bool(np.allclose(r, np.swapaxes(r, -1, -2), rtol=0, atol=0)) and bool(np.all(np.diagonal(r, axis1=-2, axis2=-1) == 0))

    C.BondsFromDistance.array = icontract.ensure(well_formed, error=lambda result: ContractBroken("BondsFromDistance.array result is not a symmetric 0/1 integer matrix with zero diagonal"))(C.BondsFromDistance.array)
    # the distance matrix itself is not part of the statement (only the connectivity is): its exact symmetry /
    # zero diagonal is recorded as a diagnostic and never decides a verdict
    def dist_diag(result):
        if not dist_ok(result):
            _contract["dist_inexact"] = _contract.get("dist_inexact", 0) + 1
        return True

    C.pairwise_distances = icontract.ensure(dist_diag, error=lambda result: ContractBroken("unreachable"))(C.pairwise_distances)


COMMENTS = {
    "none": lambda r: None,
    "empty": lambda r: "",
    "text": lambda r: "energy = -" + str(r.random()) + " # generated",
    "hash": lambda r: "# comment starting with hash",
    "digits": lambda r: str(r.randint(0, 10**6)),
    "fourcol": lambda r: f"C {r.random():.4f} {r.random():.4f} {r.random():.4f}",
    "blanks": lambda r: "   padded comment   ",
    "nonascii": lambda r: "énergie µ 中文 Å",
    "long": lambda r: "x" * 400,
    "tabs": lambda r: "a\tb\tc",
    # characters that str.splitlines() treats as line ends but a text stream does not (only "\n" ends the comment line)
    "linebreak-like": lambda r: "page 1" + r.choice(["\x0c", "\x0b", "\x1c", "\x1d", "\x1e", "\x85", "\u2028", "\u2029", "\r"]) + r.choice(["water", "C 0.0 0.0 0.0", "step 2"]),
}


def _coords(rng, n, mag):
    if mag == "tiny":
        c = [[rng.uniform(-1, 1) * 10 ** rng.uniform(-12, -6) for _ in range(3)] for _ in range(n)]
    elif mag == "huge":
        c = [[rng.uniform(-1, 1) * 10 ** rng.uniform(3, 6) for _ in range(3)] for _ in range(n)]
    elif mag == "rounding":
        c = [[rng.randint(-10**9, 10**9) * 1e-8 + rng.choice([0.5e-8, 0.49999e-8, -0.5e-8, 0.50001e-8]) for _ in range(3)] for _ in range(n)]
    elif mag == "zeros":
        c = [[rng.choice([0.0, -0.0, 1.0, -1.0, 1e-9, -1e-9, 4e-9, -6e-9]) for _ in range(3)] for _ in range(n)]
    else:
        c = [[rng.uniform(-10, 10) for _ in range(3)] for _ in range(n)]
    return c


def gen_cases(ctx):
    rng = ctx.rng
    # geometries with thousands of atoms (N x N x 3 temporaries; chunked implementations have a last, partial chunk)
    for k, nl in enumerate((2500, 3100) if ctx.tier == "quick" else (2500, 3100, 4100, 5000)):
        gs = rng.randrange(1 << 30)
        if k % ctx.nshards == ctx.shard:
            yield {"kind": "conn", "n_large": nl, "shape": "chain", "gseed": gs}
    n = ctx.n(40000, 600000)
    kinds = list(COMMENTS)
    for i in range(n):
        if i % 2 == 0:
            na = 1 if (i // 2) % 12 == 5 else rng.choice([2, 3, 5, 10, rng.randint(1, 200 if ctx.tier == "thorough" else 60)])
            els = [rng.randint(1, 118) for _ in range(na)]
            mag = rng.choice(["normal", "normal", "tiny", "huge", "rounding", "zeros"])
            yield {"kind": "xyz", "elements": els, "coords": _coords(rng, na, mag), "mag": mag, "comment": kinds[(i // 2) % len(kinds)], "cseed": rng.randrange(1 << 30), "symbols": rng.random() < 0.5}
        else:
            na = rng.randint(2, 14)
            els = [rng.choice([1, 6, 7, 8, 9, 16, 17, 35, 26, 78, rng.randint(1, 118)]) for _ in range(na)]
            shape = rng.choice(["cloud", "chain", "threshold", "coincident"])
            yield {"kind": "conn", "elements": els, "shape": shape, "gseed": rng.randrange(1 << 30)}


def check_case(ctx, case):
    if case["kind"] == "conn" and "n_large" in case:
        r = random.Random(case["gseed"])
        case = dict(case, elements=[r.choice([6, 6, 7, 14, 16, 15, 1]) for _ in range(case["n_large"])])
        ctx.count("large_geometries")
    if case["kind"] == "xyz":
        return _xyz(ctx, case)
    return _conn(ctx, case)


def _xyz(ctx, case):
    from stereomolgraph.coords import Geometry
    from stereomolgraph.periodic_table import SYMBOLS

    els, coords = case["elements"], np.array(case["coords"], dtype=float).reshape(-1, 3)
    comment = COMMENTS[case["comment"]](random.Random(case["cseed"]))
    n = len(els)
    edge = n == 1 or case["comment"] in ("fourcol", "hash", "nonascii", "none") or case["mag"] != "normal"
    ctx.case(("xyz", n, tuple(sorted(els))[:6], case["comment"], case["mag"]), n >= 2 or edge)
    ctx.count(f"comment:{case['comment']}")
    if n == 1:
        ctx.count("single_atom")
    key = "single-atom" if n == 1 else f"comment={case['comment']}/mag={case['mag']}"
    try:
        geo = Geometry([SYMBOLS[e] for e in els] if case["symbols"] else els, coords)
        text = geo.xyz_str(comment)
    except Exception as e:  # noqa: BLE001
        ctx.violate(f"C20/xyz-write-raises:{type(e).__name__}/{key}", f"xyz_str raised {e!r}", case)
        return
    try:
        back = Geometry.from_xyz(text)
    except Exception as e:  # noqa: BLE001
        ctx.violate(f"C20/xyz-read-raises:{type(e).__name__}/{key}", f"from_xyz raised {e!r} on the library's own output ({n} atoms)", case)
        return
    ctx.count("roundtrips")
    if tuple(back.atom_types) != tuple(els):
        ctx.violate(f"C20/xyz-elements-changed/{key}", f"elements {tuple(els)[:8]} came back as {tuple(back.atom_types)[:8]}", case)
        return
    if back.coords.shape != coords.shape:
        ctx.violate(f"C20/xyz-shape-changed/{key}", f"coords shape {coords.shape} came back as {back.coords.shape}", case)
        return
    tol = 0.5e-8 + 4 * np.spacing(np.abs(coords)) + 1e-17
    bad = np.abs(back.coords - coords) > tol
    if bad.any():
        i, j = map(int, np.argwhere(bad)[0])
        ctx.violate(f"C20/xyz-coordinate-lost/{key}", f"coordinate {coords[i, j]!r} came back as {back.coords[i, j]!r}", case)
    ctx.sample({"kind": "xyz", "n": n, "comment": comment, "first_lines": text.splitlines()[:4]})


def _geometry(case):
    from stereomolgraph.periodic_table import COVALENT_RADII

    rng = random.Random(case["gseed"])
    els = case["elements"]
    n = len(els)
    shape = case["shape"]
    if shape == "cloud":
        c = [[rng.uniform(-2.5, 2.5) for _ in range(3)] for _ in range(n)]
    elif shape == "chain":
        c = [[0.0, 0.0, 0.0]]
        for k in range(1, n):
            r = (COVALENT_RADII[els[k - 1]] + COVALENT_RADII[els[k]]) * rng.uniform(0.8, 1.5)
            v = np.array([rng.gauss(0, 1) for _ in range(3)])
            v = v / np.linalg.norm(v) * r
            c.append(list(np.array(c[-1]) + v))
    elif shape == "coincident":
        c = [[rng.uniform(-2, 2) for _ in range(3)] for _ in range(n)]
        c[1] = list(c[0])
    else:  # threshold: consecutive atoms placed just inside / outside their cut-off
        c = [[0.0, 0.0, 0.0]]
        for k in range(1, n):
            cut = (COVALENT_RADII[els[k - 1]] + COVALENT_RADII[els[k]]) * 1.2
            r = cut * (1 + rng.choice([-1e-5, 1e-5, -1e-3, 1e-3, -3e-6, 3e-6]))
            c.append([c[-1][0] + r, 0.0, 0.0] if k % 2 else [c[-1][0], r, 0.0])
            c[-1] = [c[-2][0] + (r if k % 2 else 0.0), c[-2][1] + (0.0 if k % 2 else r), 0.0]
    return np.array(c, dtype=float), rng


def _expected(els, c, band):
    from stereomolgraph.periodic_table import COVALENT_RADII

    n = len(els)
    if n > 400:  # large geometries: same definition, evaluated row by row with numpy
        r = np.array([COVALENT_RADII[e] for e in els], dtype=float)
        exp = np.zeros((n, n), dtype=int)
        unsure = np.zeros((n, n), dtype=bool)
        for i in range(n):
            d = np.sqrt(((c - c[i]) ** 2).sum(axis=1))
            cut = (r + r[i]) * 1.2
            exp[i] = d < cut
            unsure[i] = np.abs(d - cut) <= band * cut
            exp[i, i] = 0
            unsure[i, i] = False
        return exp, unsure
    exp = np.zeros((n, n), dtype=int)
    unsure = np.zeros((n, n), dtype=bool)
    for i in range(n):
        for j in range(n):
            if i == j:
                continue
            d = math.dist(c[i], c[j])
            cut = (COVALENT_RADII[els[i]] + COVALENT_RADII[els[j]]) * 1.2
            exp[i, j] = 1 if d < cut else 0
            if abs(d - cut) <= band * cut:
                unsure[i, j] = True
    return exp, unsure


def _conn(ctx, case):
    from stereomolgraph.coords import BondsFromDistance, Geometry
    from stereomolgraph.graphs.mg import MolGraph

    els = case["elements"]
    n = len(els)
    c, rng = _geometry(case)
    ctx.case(("conn", n, tuple(sorted(els)), case["shape"]), True)
    n0 = _contract["n"]
    if n >= 2 and case.get("gseed", 0) % 3 == 0:
        # history: somebody customised the cut-offs of ANOTHER BondsFromDistance object (e.g. to count hydrogen bonds);
        # the default rule used below must not notice
        try:
            from stereomolgraph.periodic_table import PERIODIC_TABLE

            other = BondsFromDistance()
            for i, j in ((0, 1), (1, 0), (0, n - 1), (n - 1, 0)):
                key = (PERIODIC_TABLE[els[i]], PERIODIC_TABLE[els[j]])
                other.connectivity_cutoff[key] = 10.0 * float(other.connectivity_cutoff[key])
            ctx.count("foreign_cutoff_overrides")
        except Exception:  # noqa: BLE001
            ctx.count("foreign_cutoff_override_not_possible")
    try:
        m = np.asarray(BondsFromDistance().array(c.copy(), els))
    except ContractBroken as e:
        ctx.violate(f"C20/connectivity-malformed/{case['shape']}", str(e), case)
        return
    except Exception as e:  # noqa: BLE001
        ctx.violate(f"C20/connectivity-raises:{type(e).__name__}/{case['shape']}", f"BondsFromDistance().array raised {e!r}", case)
        return
    ctx.count("connectivity_matrices")
    ctx.count("contract_evaluations", _contract["n"] - n0)
    exp, unsure = _expected(els, c, 1e-9)
    ctx.count("filtered_pairs_on_threshold", int(unsure.sum()))
    if case["shape"] == "threshold":
        ctx.count("threshold_pairs", n - 1)
    bad = (m != exp) & ~unsure
    if bad.any():
        i, j = map(int, np.argwhere(bad)[0])
        ctx.violate(f"C20/connectivity-wrong/{case['shape']}/{'bonded' if m[i, j] else 'unbonded'}-but-should-not", f"entry ({i},{j}) is {m[i, j]}: d={math.dist(c[i], c[j])!r}, elements {els[i]},{els[j]}", case)
        return
    # graph bonds = upper triangle
    try:
        g = MolGraph.from_geometry(Geometry(els, c))
        got = {tuple(sorted(b)) for b in g.bonds}
        want = {(i, j) for i in range(n) for j in range(i + 1, n) if m[i, j]}
        if got != want or any(len(set(b)) != 2 for b in g.bonds):
            ctx.violate("C20/graph-bonds-differ-from-matrix", f"MolGraph.from_geometry bonds {sorted(got)[:6]} vs matrix upper triangle {sorted(want)[:6]}", case)
    except Exception as e:  # noqa: BLE001
        ctx.violate(f"C20/from-geometry-raises:{type(e).__name__}", f"MolGraph.from_geometry raised {e!r}", case)
    # rigid motion + permutation
    q = np.array([rng.gauss(0, 1) for _ in range(4)])
    q /= np.linalg.norm(q)
    w, x, y, z = q
    R = np.array([[1 - 2 * (y * y + z * z), 2 * (x * y - z * w), 2 * (x * z + y * w)], [2 * (x * y + z * w), 1 - 2 * (x * x + z * z), 2 * (y * z - x * w)], [2 * (x * z - y * w), 2 * (y * z + x * w), 1 - 2 * (x * x + y * y)]])
    tmag = rng.choice([50.0, 50.0, 1e3, 1e5, 1e6])  # the statement covers coordinates up to 1e6
    t = np.array([rng.uniform(-1, 1) * tmag for _ in range(3)])
    ctx.count(f"translation_magnitude:{tmag:g}")
    perm = list(range(n))
    rng.shuffle(perm)
    c2 = (c @ R.T + t)[perm]
    els2 = [els[p] for p in perm]
    try:
        m2 = np.asarray(BondsFromDistance().array(c2, els2))
    except Exception as e:  # noqa: BLE001
        ctx.violate(f"C20/connectivity-raises:{type(e).__name__}/moved", f"array raised {e!r} after a rigid motion", case)
        return
    ctx.count("rigid_motions")
    ctx.count("permutations")
    if _contract.get("dist_inexact"):
        ctx.count("diag:pairwise_distances_not_exactly_symmetric_or_zero_diagonal", _contract.pop("dist_inexact"))
    _, loose = _expected(els, c, 1e-6)
    back = np.zeros_like(m2)
    for i2, i in enumerate(perm):
        for j2, j in enumerate(perm):
            back[i, j] = m2[i2, j2]
    bad = (back != m) & ~loose
    if bad.any():
        i, j = map(int, np.argwhere(bad)[0])
        ctx.violate(f"C20/connectivity-not-invariant/rigid-motion+permutation/translation~{tmag:g}", f"pair ({i},{j}) bonded={m[i, j]} before and {back[i, j]} after rotation/translation/permutation (d={math.dist(c[i], c[j])!r})", case)
    if n <= 40 and case.get("gseed", 0) % 4 == 1:
        _session(ctx, case, list(els), c, loose, rng)
    ctx.sample({"kind": "conn", "shape": case["shape"], "elements": els, "bonds": int(m.sum()) // 2})


def _session(ctx, case, els, c, loose, rng):
    """ONE long-lived BondsFromDistance object used for a series of requests, as in a scan over substituents or a
    trajectory: the caller's element list edited in place between calls, the cut-off table edited between calls, the same
    geometry asked again in another atom order. Every answer must be the answer of a brand-new object given the same
    table edits (a new object has no history)."""
    from stereomolgraph.coords import BondsFromDistance
    from stereomolgraph.periodic_table import PERIODIC_TABLE

    n = len(els)
    sf = BondsFromDistance()
    edits = []

    def fresh_answer(e, cc):
        f = BondsFromDistance()
        for key, val in edits:
            f.connectivity_cutoff[key] = val
        return np.asarray(f.array(cc.copy(), list(e)))

    def ask(step, e_arg, cc, e_plain, ignore):
        try:
            got = np.asarray(sf.array(cc, e_arg))
        except Exception as e:  # noqa: BLE001
            ctx.violate(f"C20/connectivity-raises:{type(e).__name__}/session/{step}", f"array raised {e!r} in a series of requests to one object (step: {step})", case)
            return None
        want = fresh_answer(e_plain, cc)
        ctx.count("session_requests")
        bad = (got != want) & ~ignore
        if bad.any():
            i, j = map(int, np.argwhere(bad)[0])
            ctx.violate(f"C20/connectivity-depends-on-history/{step}", f"one BondsFromDistance object used for a series of requests answers {got[i, j]} for pair ({i},{j}) (elements {e_plain[i]},{e_plain[j]}, d={math.dist(cc[i], cc[j])!r}) where a new object answers {want[i, j]} (step: {step})", case)
            return None
        return got

    if ask("first", els, c, els, loose) is None:
        return
    if ask("same-again", els, c, els, loose) is None:
        return
    # the caller's list edited in place (no threshold filter needed: both objects apply the same rule to the same numbers)
    none = np.zeros((n, n), dtype=bool)
    for _ in range(2):
        k = rng.randrange(n)
        els[k] = rng.choice([1, 9, 17, 35, 53, 6, 16])
        if ask("element-list-edited-in-place", els, c, list(els), none) is None:
            return
    arr = np.array(els)
    if ask("element-array", arr, c, list(els), none) is None:
        return
    arr[rng.randrange(n)] = rng.choice([1, 9, 17, 35, 53])
    if ask("element-array-edited-in-place", arr, c, [int(x) for x in arr], none) is None:
        return
    els = [int(x) for x in arr]
    # the cut-off table edited between requests (both key orders), then the same geometry in two atom orders
    i, j = rng.sample(range(n), 2)
    val = float(sf.connectivity_cutoff[(PERIODIC_TABLE[els[i]], PERIODIC_TABLE[els[j]])]) * rng.choice([0.5, 1.7, 3.0, 0.0])  # 0.0: "never bonded"
    keys = [(PERIODIC_TABLE[els[i]], PERIODIC_TABLE[els[j]]), (PERIODIC_TABLE[els[j]], PERIODIC_TABLE[els[i]])]
    if rng.random() < 0.5:
        # only one orientation is stored: a pair that was never looked up in the other orientation is answered from the
        # stored one (the table's symmetric lookup)
        sf = BondsFromDistance()
        keys = keys[:1]
        ctx.count("session_one_orientation_edits")
    for key in keys:
        sf.connectivity_cutoff[key] = val  # a symmetric table: the same value under both key orders
        edits.append((key, val))
    ctx.count("session_cutoff_edits")
    m1 = ask("cutoff-edited", els, c, els, none)
    if m1 is None:
        return
    # the edited rule itself: pairs of the two edited elements are bonded exactly below the new cut-off, all others as before
    exp, unsure = _expected(els, c, 1e-9)
    zi, zj = PERIODIC_TABLE[els[i]], PERIODIC_TABLE[els[j]]
    for a in range(n):
        for b in range(n):
            if a != b and {PERIODIC_TABLE[els[a]], PERIODIC_TABLE[els[b]]} == {zi, zj}:
                d = math.dist(c[a], c[b])
                exp[a, b] = 1 if d < val else 0
                unsure[a, b] = abs(d - val) <= 1e-9 * max(val, 1.0)
    bad = (m1 != exp) & ~unsure
    if bad.any():
        a, b = map(int, np.argwhere(bad)[0])
        ctx.violate("C20/connectivity-wrong/edited-cutoff", f"cut-off for elements {els[i]}/{els[j]} set to {val!r} ({len(keys)} key order(s) stored): pair ({a},{b}) (elements {els[a]},{els[b]}, d={math.dist(c[a], c[b])!r}) is {'bonded' if m1[a, b] else 'not bonded'}", case)
        return
    perm = list(range(n))
    rng.shuffle(perm)
    m2 = ask("cutoff-edited+reordered", [els[p] for p in perm], c[perm], [els[p] for p in perm], none)
    if m2 is None:
        return
    back = np.zeros_like(m2)
    for i2, a in enumerate(perm):
        for j2, b in enumerate(perm):
            back[a, b] = m2[i2, j2]
    if (back != m1).any():
        ctx.violate("C20/connectivity-not-invariant/permutation/session", "after a cut-off edit the same geometry gives different bonds in two atom orders", case)
