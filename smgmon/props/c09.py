"""C09 - any editing history leaves a coherent graph (reference model in lock-step)."""
from __future__ import annotations

import json
import random
from collections import Counter

from .. import model, sem
from ..runner import keyhash
from ..snapshot import CLASS_NAMES, REACTION, STEREO, classes, normalise, raw_views, snap, views_equal

LEVEL = "exploration"
RULE = (
    "(a) bounded breadth-first exploration of histories over ids {0,1,2,3} (+5 after relabelling), elements {H,C}, one "
    "attribute, a small descriptor alphabet (lone-pair Tetrahedral +-1 on two centres, PlanarBond with placeholders; "
    "broken/formed/fleeting slots for the stereo reaction class), all public mutators incl. in-place relabelling with 3 "
    "mappings and the role-specific bond adders: every frontier state is rebuilt on a fresh real object by replaying its "
    "history, every well-formed op is executed on it, and after each op the real snapshot must equal the reference model, "
    "the coherence invariants (Appendix B) must hold and a battery of read-only queries (present and absent ids) must not "
    "change any view; states are merged by (model snapshot, internal shape signature). (b) long random histories (200-2000 "
    "ops) over 10 ids and all descriptor classes with the same monitors. Non-trivial transition: changes the model state; "
    "distinct = distinct (state, op) transitions and distinct states."
)
ASSUMPTIONS = [
    "reference model op semantics of DESIGN.md Appendix A; outcomes the statements leave open are followed, not judged",
    "empty neighbour sets / empty change dictionaries of present atoms are identified with 'no entry'",
]
ANCHORS = [
    f"stereomolgraph.graphs.mg:MolGraph.{m}" for m in ("add_atom", "remove_atom", "add_bond", "remove_bond", "set_atom_attribute", "delete_atom_attribute", "set_bond_attribute", "delete_bond_attribute", "relabel_atoms", "bonded_to", "get_atom_attribute", "get_bond_attributes")
] + [
    "stereomolgraph.graphs.smg:StereoMolGraph.remove_atom",
    "stereomolgraph.graphs.smg:StereoMolGraph.set_atom_stereo",
    "stereomolgraph.graphs.smg:StereoMolGraph.set_bond_stereo",
    "stereomolgraph.graphs.smg:StereoMolGraph.relabel_atoms",
    "stereomolgraph.graphs.scrg:StereoCondensedReactionGraph.set_atom_stereo_change",
    "stereomolgraph.graphs.scrg:StereoCondensedReactionGraph.set_bond_stereo_change",
    "stereomolgraph.graphs.scrg:StereoCondensedReactionGraph.relabel_atoms",
    "stereomolgraph.graphs.crg:CondensedReactionGraph.add_formed_bond",
]
REQUIRED_ANCHORS = ANCHORS
REQUIRED = ["transitions", "bfs_states", "random_history_ops", "query_battery_runs", "absent_key_queries", "remove_atom_with_descriptors", "op:relabel_atoms", "op:remove_atom", "op:set_atom_stereo_change", "scale_histories", "op:bonds_from_bond_order_matrix"]
CASE_TIMEOUT = 1600
U = (0, 1, 2, 3)
ABSENT = 7


def alphabet(cls):
    ops = []
    for a in U:
        for z in ("H", 6):
            ops.append(["add_atom", a, z])
        ops.append(["add_atom", a, "C", {"label": 1}])
        ops.append(["remove_atom", a])
        ops.append(["set_atom_attribute", a, "label", 2])
        ops.append(["set_atom_attribute", a, "atom_type", "H"])
        ops.append(["delete_atom_attribute", a, "label"])
    pairs = [(a, b) for i, a in enumerate(U) for b in U[i + 1:]]
    for a, b in pairs:
        ops.append(["add_bond", a, b])
        ops.append(["add_bond", b, a, {"bond_order": 2}])
        ops.append(["remove_bond", a, b])
        ops.append(["set_bond_attribute", a, b, "bond_order", 1])
        ops.append(["delete_bond_attribute", a, b, "bond_order"])
        if cls in REACTION:
            ops.append(["add_formed_bond", a, b])
            ops.append(["add_broken_bond", a, b])
            ops.append(["add_fleeting_bond", a, b])
            ops.append(["add_bond", a, b, {"reaction": {"$change": "FORMED"}}])
            ops.append(["set_bond_attribute", a, b, "reaction", {"$change": "BROKEN"}])
            ops.append(["delete_bond_attribute", a, b, "reaction"])
    if cls in STEREO:
        tets = [["Tetrahedral", [0, 1, 2, 3, None], 1], ["Tetrahedral", [0, 1, 2, 3, None], -1], ["Tetrahedral", [1, 0, None, 2, 3], 1], ["Tetrahedral", [2, 3, 1, None, None], -1]]
        pbs = [["PlanarBond", [2, None, 0, 1, 3, None], 0], ["PlanarBond", [None, 2, 0, 1, 3, None], 0], ["AtropBond", [0, None, 1, 2, 3, None], 1]]
        for d in tets:
            ops.append(["set_atom_stereo", d])
        for d in pbs:
            ops.append(["set_bond_stereo", d])
        for a in U[:3]:
            ops.append(["delete_atom_stereo", a])
        ops.append(["delete_bond_stereo", [0, 1]])
        ops.append(["delete_bond_stereo", [1, 2]])
        if cls == "StereoCondensedReactionGraph":
            ops.append(["set_atom_stereo_change", {"broken": tets[0]}])
            ops.append(["set_atom_stereo_change", {"formed": tets[1]}])
            ops.append(["set_atom_stereo_change", {"fleeting": tets[2]}])
            ops.append(["set_atom_stereo_change", {"broken": tets[0], "formed": tets[1]}])
            ops.append(["set_atom_stereo_change", {"broken": tets[3], "fleeting": tets[3], "formed": tets[3]}])
            ops.append(["set_bond_stereo_change", {"broken": pbs[0], "formed": pbs[1]}])
            ops.append(["set_bond_stereo_change", {"fleeting": pbs[2]}])
            for a in (0, 1, 2):
                ops.append(["delete_atom_stereo_change", a, None])
            ops.append(["delete_atom_stereo_change", 0, "BROKEN"])
            ops.append(["delete_bond_stereo_change", [0, 1], None])
            ops.append(["delete_bond_stereo_change", [0, 1], "FORMED"])
    ops.append(["relabel_atoms", [[0, 1], [1, 0]]])
    ops.append(["relabel_atoms", [[0, 5]]])
    ops.append(["relabel_atoms", [[0, 1], [1, 2], [2, 3], [3, 0]]])
    return ops


def pg_key(M):
    def dk(d):
        return (d[0], tuple(repr(x) for x in d[1]), repr(d[2]))

    return repr((
        sorted((repr(a), sorted((k, repr(v)) for k, v in at.items())) for a, at in M["atoms"].items()),
        sorted((sorted(map(repr, b)), sorted((k, repr(v)) for k, v in at.items())) for b, at in M["bonds"].items()),
        sorted(dk(d) for d in M["astereo"].values()),
        sorted(dk(d) for d in M["bstereo"].values()),
        sorted(sorted((s, dk(d)) for s, d in v.items()) for v in M["achange"].values() if v),
        sorted(sorted((s, dk(d)) for s, d in v.items()) for v in M["bchange"].values() if v),
    ))


def shape(g):
    """internal shape signature - used ONLY to keep history-dependent internal states apart when
    counting/merging states, never for a verdict"""
    try:
        sig = [type(g._atom_attrs).__name__, type(g._neighbors).__name__, type(g._bond_attrs).__name__, tuple(sorted(map(repr, g._neighbors))), tuple(sorted(repr(k) for k, v in g._neighbors.items() if not v))]
        if hasattr(g, "_atom_stereo"):
            sig.append(type(g._atom_stereo).__name__)
        if hasattr(g, "_atom_stereo_change"):
            sig += [type(g._atom_stereo_change).__name__, tuple(sorted(repr(k) for k, v in g._atom_stereo_change.items() if not v)), tuple(sorted(repr(sorted(k)) for k, v in g._bond_stereo_change.items() if not v))]
        return repr(sig)
    except Exception:  # noqa: BLE001
        return "?"


def opkey(op):
    name = op[0]
    if name in ("set_atom_stereo_change", "set_bond_stereo_change"):
        return f"{name}({'+'.join(sorted(op[1]))})"
    if name in ("delete_atom_stereo_change", "delete_bond_stereo_change"):
        return f"{name}({'slot' if op[2] else 'all'})"
    if name == "relabel_atoms":
        return "relabel_atoms(in-place)"
    return name


def step(ctx, g, M, cls, op, case, universe, do_battery=True):
    """execute op on real + model, run all monitors. returns False if the history must be abandoned"""
    kind = model.classify(M, cls, op)
    if kind == "skip":
        return True
    had_desc = bool(M["astereo"] or M["bstereo"] or M["achange"] or M["bchange"])
    status, val = model.apply_real(g, op)
    ctx.count("transitions")
    ctx.count(f"op:{op[0]}")
    ok = True
    if kind == "ok":
        if status == "raised":
            ctx.violate(f"C09/well-formed-op-raises:{val}/{cls}/{opkey(op)}", f"{op} raised {val} on a state where it is well-formed (history length {len(case.get('history', []))})", case)
            return False
        if op[0] == "remove_atom" and had_desc:
            ctx.count("remove_atom_with_descriptors")
        free = model.apply_model(M, cls, op)
        if free:
            S = snap(g)
            for (key, k), slots in free.items():
                real = {s: d for s, d in S[key].get(k, {}).items()}
                if all(s in slots and M[key][k][s] == d for s, d in real.items()):
                    if real:
                        M[key][k] = real
                    else:
                        del M[key][k]
            ctx.count("open_outcome:remove_atom-partial-change-entry")
        if op[0] == "relabel_atoms" and val is not g:
            ctx.violate(f"C09/relabel-in-place-returns-other-object/{cls}", "relabel_atoms(copy=False) returned a different object", case)
    elif kind == "open":
        S = snap(g)
        before = model.compare(g, M)
        if before:
            for k in ("atoms", "bonds", "astereo", "bstereo", "achange", "bchange"):
                M[k] = S[k]
            M["achange"] = {k: v for k, v in M["achange"].items() if v}
            M["bchange"] = {k: v for k, v in M["bchange"].items() if v}
        ctx.count(f"open_outcome:{op[0]}:{status}")
    else:
        return True  # must-raise ops belong to C19 and are not generated here
    diff = model.compare(g, M)
    if diff:
        what = diff[0].split(":")[0]
        ctx.violate(f"C09/model-mismatch/{cls}/{opkey(op)}/{what.replace('/', '-')}", f"after {op}: {diff[0]}", case)
        ok = False
    for inv, text in model.coherence(g, universe):
        ctx.violate(f"C09/incoherent/{cls}/{inv}/after-{opkey(op)}", f"after {op}: {text}", case)
        ok = False
    if do_battery and ok:
        ok = battery(ctx, g, cls, case, universe, f"after-{opkey(op)}")
    return ok


def battery(ctx, g, cls, case, universe, where):
    ctx.count("query_battery_runs")
    before = raw_views(g)
    ok = True
    for name, thunk in model.queries(g, universe):
        try:
            thunk()
            ctx.count("queries")
        except Exception:  # noqa: BLE001  (a raising lookup is fine; it must not change a view)
            ctx.count("queries_raised")
        after = raw_views(g)
        d = views_equal(before, after)
        if d:
            ctx.violate(f"C09/query-changes-view/{cls}/{name}", f"{name} ({where}) changed a view: {d[0]}", case)
            ok = False
            before = after
    ctx.count("absent_key_queries", 10)
    return ok


def gen_cases(ctx):
    rng = ctx.rng
    # (a) BFS: one case per (class, first op) - spread over shards
    k = 0
    for cls in CLASS_NAMES:
        ops0 = [op for op in alphabet(cls) if op[0] == "add_atom"]
        for op in ops0:
            if k % ctx.nshards == ctx.shard:
                total = (30000 if ctx.tier == "quick" else 1000000) * float(__import__("os").environ.get("SMG_SCALE", "1"))
                yield {"kind": "bfs", "cls": cls, "first": op, "budget": int(total / len(ops0))}
            k += 1
    # (b) random histories
    n = ctx.n(200, 5000)
    for i in range(n):
        yield {"kind": "random", "cls": CLASS_NAMES[(i + ctx.shard) % 4], "hseed": rng.randrange(1 << 30), "length": rng.choice([200, 200, 400, 800] if ctx.tier == "quick" else [200, 500, 1000, 2000])}
    # (b') histories that start from a very long chain
    from .. import gen

    k = 0
    for nsz in gen.SCALE_SIZES[ctx.tier]:
        for cls in CLASS_NAMES:
            hs = rng.randrange(1 << 30)
            if k % ctx.nshards == ctx.shard:
                yield {"kind": "random", "cls": cls, "hseed": hs, "length": 20, "scale": nsz}
            k += 1
    # (c) thorough only: the repository's own tests as an ambient workload under the monitors
    if ctx.tier == "thorough" and ctx.shard == 0:
        yield {"kind": "ambient"}


def check_case(ctx, case):
    if case["kind"] == "ambient":
        from ..instrument import run_ambient

        ev, viol, tail = run_ambient("C09/")
        for k in ("outermost", "mutator_checks", "query_checks"):
            ctx.count(f"ambient:{k}", ev.get(k, 0))
        ctx.case(("ambient",), ev.get("mutator_checks", 0) > 0)
        for v in viol[:20]:
            ctx.violate(v["key"], "repository test-suite under the ambient monitors: " + v["what"], case)
        ctx.sample({"kind": "ambient", "events": ev, "pytest": tail}, cap=3)
        return
    if case["kind"] == "bfs":
        return bfs(ctx, case)
    if case["kind"] == "history":
        return replay_history(ctx, case)
    return random_history(ctx, case)


def replay_history(ctx, case):
    cls = case["cls"]
    g = classes()[cls]()
    M = sem.pg_empty(cls)
    uni = tuple(case.get("universe", (*U, 5, ABSENT)))
    for op in case["history"]:
        if not step(ctx, g, M, cls, op, case, uni):
            return
    ctx.case(("history", json.dumps(case["history"])), True)


def bfs(ctx, case):
    cls = case["cls"]
    alpha = alphabet(cls)
    uni = (*U, 5, ABSENT)
    budget = case["budget"]
    Cls = classes()[cls]
    seen = set()
    frontier = [[case["first"]]]
    depth = 1
    done_levels = 0
    trans = 0

    def rebuild(hist):
        g, M = Cls(), sem.pg_empty(cls)
        for op in hist:
            model.apply_real(g, op)
            if model.classify(M, cls, op) == "ok":
                model.apply_model(M, cls, op)
            else:
                S = snap(g)
                for k in ("atoms", "bonds", "astereo", "bstereo", "achange", "bchange"):
                    M[k] = S[k]
        # resync free/open parts from the real object (already judged when first executed)
        S = snap(g)
        M["achange"] = {k: v for k, v in S["achange"].items() if v}
        M["bchange"] = {k: v for k, v in S["bchange"].items() if v}
        return g, M

    # the first op itself
    g, M = Cls(), sem.pg_empty(cls)
    step(ctx, g, M, cls, case["first"], {"kind": "history", "cls": cls, "history": [case["first"]]}, uni)
    seen.add((pg_key(M), shape(g)))
    while frontier and trans < budget:
        nxt = []
        complete = True
        for hist in frontier:
            if trans >= budget or not ctx.time_left():
                complete = False
                break
            base_g, base_M = rebuild(hist)
            base_key = pg_key(base_M)
            for op in alpha:
                if model.classify(base_M, cls, op) in ("must-raise", "skip"):
                    continue
                g, M = rebuild(hist)
                h = hist + [op]
                hcase = {"kind": "history", "cls": cls, "history": h}
                ok = step(ctx, g, M, cls, op, hcase, uni, do_battery=(trans % 7 == 0))
                trans += 1
                key = (pg_key(M), shape(g))
                changed = key[0] != base_key
                ctx.case(("t", cls, base_key, json.dumps(op)), changed)
                if ok and key not in seen:
                    seen.add(key)
                    nxt.append(h)
                    ctx.distinct.add(keyhash(("state", cls, key)))
        if complete:
            done_levels = depth
        frontier = nxt
        depth += 1
    ctx.count("bfs_states", len(seen))
    # history length (incl. the first op) up to which the enumeration was complete, minimum over the first ops of this class
    k = f"min:bfs_complete_history_length:{cls}"
    ctx.extra[k] = min(ctx.extra.get(k, done_levels + 1), done_levels + 1)
    ctx.extra["states"] = ctx.extra.get("states", 0) + len(seen)
    ctx.extra["transitions"] = ctx.extra.get("transitions", 0) + trans
    ctx.sample({"kind": "bfs", "class": cls, "first_op": case["first"], "states": len(seen), "transitions": trans, "completed_depth_after_first_op": done_levels, "example_history": frontier[0] if frontier else None}, cap=1)


# ---------------------------------------------------------------------------
# random long histories over a larger universe and all descriptor classes
# ---------------------------------------------------------------------------
def _degree_after(M, op):
    """largest coordination number the model graph would have after a bond-adding op (0 for other ops)"""
    if op[0] in ("add_bond", "add_formed_bond", "add_broken_bond", "add_fleeting_bond"):
        new = [frozenset(op[1:3])]
    elif op[0] == "bonds_from_bond_order_matrix":
        mat, thr = op[1], op[2]
        new = [frozenset((i, j)) for i in range(len(mat)) for j in range(len(mat)) if i != j and mat[i][j] > thr]
    else:
        return 0
    deg = Counter()
    for b in set(M["bonds"]) | set(new):
        for a in b:
            deg[a] += 1
    return max(deg.values(), default=0)


def alphabet_elements(cls):
    return sorted({op[2] for op in alphabet(cls) if op[0] == "add_atom"}, key=repr)


def matrix_op(rng, n):
    """bond-order matrix over atoms 0..n-1 as programs print them: full symmetric, one triangle only, or full with
    numerical noise (entries of one pair on different sides of the threshold); integer or float entries"""
    thr = rng.choice([0.5, 0.5, 0.25, 1.2])
    kind = rng.choice(["symmetric", "lower", "upper", "noisy", "int"])
    vals = [0.0, 0.0, 0.1, thr - 0.01, thr + 0.01, 0.9, 1.0, 1.5, 2.0, 3.0]
    mat = [[0.0] * n for _ in range(n)]
    for i in range(n):
        for j in range(i):
            v = rng.choice(vals)
            if kind == "int":
                v = int(round(v))
            if kind in ("symmetric", "int"):
                mat[i][j] = mat[j][i] = v
            elif kind == "lower":
                mat[i][j] = v
            elif kind == "upper":
                mat[j][i] = v
            else:
                mat[i][j] = v
                mat[j][i] = max(0.0, v + rng.choice([0.0, 0.0, -0.02, 0.02]))
    return ("bonds_from_bond_order_matrix", mat, thr, rng.random() < 0.5)


def random_op(rng, M, cls, ids):
    from .. import gen

    A, B = M["atoms"], M["bonds"]
    present = sorted(A)
    r = rng.random()
    nb = sem.pg_neighbors(M)
    if r < 0.16 or len(present) < 2:
        a = rng.choice(ids)
        extra = {"label": rng.choice([1, "x", 2.5])} if rng.random() < 0.3 else {}
        return ["add_atom", a, rng.choice(["H", "C", "N", 8, 9, "cl", "BR", 15, 16]), extra] if extra else ["add_atom", a, rng.choice(["H", "C", "N", 8, 9, "cl", "BR", 15, 16])]
    if r < 0.22:
        return ["remove_atom", rng.choice(present)]
    if r < 0.42:
        a, b = rng.sample(present, 2)
        if cls in REACTION and rng.random() < 0.5:
            how = rng.random()
            role = rng.choice(model.ROLES)
            if how < 0.6:
                return [{"FORMED": "add_formed_bond", "BROKEN": "add_broken_bond", "FLEETING": "add_fleeting_bond"}[role], a, b]
            return ["add_bond", a, b, {"reaction": {"$change": role}}]
        return ["add_bond", a, b, {"bond_order": rng.choice([1, 2])}] if rng.random() < 0.3 else ["add_bond", a, b]
    if r < 0.48 and B:
        return ["remove_bond", *sorted(rng.choice(sorted(B, key=sorted)))]
    if r < 0.54:
        a = rng.choice(present)
        return rng.choice([["set_atom_attribute", a, "label", rng.choice([1, 2, "z", None, 0, ""])], ["set_atom_attribute", a, "atom_type", rng.choice(["H", "C", 7])], ["delete_atom_attribute", a, "label"]])
    if r < 0.60 and B:
        a, b = sorted(rng.choice(sorted(B, key=sorted)))
        ch = [["set_bond_attribute", a, b, "bond_order", rng.choice([1, 2, 3])], ["delete_bond_attribute", a, b, "bond_order"],
              # falsy and None values are values like any other (seeded C09h: None treated as "do not store")
              ["set_bond_attribute", a, b, "label", rng.choice([None, 0, "", "w", 1.5, False])], ["delete_bond_attribute", a, b, "label"]]
        if cls in REACTION:
            ch += [["set_bond_attribute", a, b, "reaction", {"$change": rng.choice(model.ROLES)}], ["delete_bond_attribute", a, b, "reaction"]]
        return rng.choice(ch)
    if r < 0.64:
        tgt = rng.sample(ids + [i + 100 for i in ids], len(present))
        sub = rng.sample(present, rng.randint(1, len(present)))
        m = {a: t for a, t in zip(sub, tgt)}
        rest = set(present) - set(sub)
        if len(set(m.values())) == len(m) and not (set(m.values()) & rest):
            return ["relabel_atoms", [[a, b] for a, b in m.items()]]
        return ["relabel_atoms", [[present[0], present[1]], [present[1], present[0]]]]
    if cls not in STEREO:
        return ["add_bond", *rng.sample(present, 2)]
    if r < 0.80:
        cands = [a for a in present if 3 <= len(nb[a]) <= 6]
        if cands:
            a = rng.choice(cands)
            d = gen._atom_desc(rng, a, nb[a], 0.1)
            d = [d[0], list(d[1]), d[2]]
            if cls == "StereoCondensedReactionGraph" and rng.random() < 0.5:
                slots = rng.choice([("broken",), ("formed",), ("fleeting",), ("broken", "formed"), ("broken", "fleeting", "formed")])
                out = {}
                for s in slots:
                    dd = gen._atom_desc(rng, a, nb[a], 0.1)
                    out[s] = [dd[0], list(dd[1]), dd[2]]
                return ["set_atom_stereo_change", out]
            return ["set_atom_stereo", d]
        a = rng.choice(present)
        lig = rng.sample(ids, 3)
        return ["set_atom_stereo", ["Tetrahedral", [a, *lig, None], rng.choice([1, -1])]]
    if r < 0.92 and B:
        b = rng.choice(sorted(B, key=sorted))
        x, y = sorted(b)
        d = gen._bond_desc(rng, x, y, nb[x] - {y}, nb[y] - {x}, 0.1) or ("PlanarBond", (None, rng.choice(ids), x, y, None, rng.choice(ids)), 0)
        d = [d[0], list(d[1]), d[2]]
        if cls == "StereoCondensedReactionGraph" and rng.random() < 0.5:
            return ["set_bond_stereo_change", {rng.choice(["broken", "formed", "fleeting"]): d}]
        return ["set_bond_stereo", d]
    ch = []
    if M["astereo"]:
        ch.append(["delete_atom_stereo", rng.choice(sorted(M["astereo"]))])
    if M["bstereo"]:
        ch.append(["delete_bond_stereo", sorted(rng.choice(sorted(M["bstereo"], key=sorted)))])
    if M["achange"]:
        k = rng.choice(sorted(M["achange"]))
        ch.append(["delete_atom_stereo_change", k, rng.choice([None, *M["achange"][k]])])
    if M["bchange"]:
        k = rng.choice(sorted(M["bchange"], key=sorted))
        ch.append(["delete_bond_stereo_change", sorted(k), rng.choice([None, *M["bchange"][k]])])
    return rng.choice(ch) if ch else ["add_bond", *rng.sample(present, 2)]


def random_history(ctx, case):
    cls = case["cls"]
    rng = random.Random(case["hseed"])
    ids = list(range(10))
    g = classes()[cls]()
    M = sem.pg_empty(cls)
    if case.get("scale"):
        # the history starts from a very long chain built through the public mutators (n*n index arithmetic, deep traversals)
        from .. import gen
        from ..snapshot import build

        M = gen.scale_pg(random.Random(case["hseed"] + 1), cls, case["scale"])
        g = build(M, rng=random.Random(case["hseed"] + 2))
        ids = sorted(M["atoms"])[:: max(1, len(M["atoms"]) // 40)] + [max(M["atoms"]) + 1 + k for k in range(5)]
        ids = ids * (len(M["atoms"]) // len(ids) + 1)
        ctx.count("scale_histories")
        ctx.count(f"scale:{case['scale']}")
        uni0 = tuple(sorted(M["atoms"])[:4]) + (ABSENT,)
        diff = model.compare(g, M)
        if diff:
            ctx.violate(f"C09/model-mismatch/{cls}/build-large/{diff[0].split(':')[0]}", f"after building a {len(M['atoms'])}-atom chain: {diff[0]}", case)
            return
        for inv, text in model.coherence(g, uni0):
            ctx.violate(f"C09/incoherent/{cls}/{inv}/after-build-large", f"after building a {len(M['atoms'])}-atom chain: {text}", case)
            return
        if not battery(ctx, g, cls, case, uni0, "after-build-large"):
            return
    hist = []
    removals = desc_ops = 0
    prelude = []
    if not case.get("scale") and case["hseed"] % 3 == 0:
        # a graph filled from a bond-order matrix (symmetric, triangular or numerically noisy), then edited further
        n0 = rng.randint(2, 7)
        prelude = [("add_atom", k, rng.choice(alphabet_elements(cls))) for k in range(n0)] + [matrix_op(rng, n0)]
    for i in range(case["length"]):
        if prelude:
            op = prelude.pop(0)
        elif M["atoms"] and set(M["atoms"]) == set(range(len(M["atoms"]))) and rng.random() < 0.04:
            op = matrix_op(rng, len(M["atoms"]))
        else:
            op = random_op(rng, M, cls, ids)
        if model.classify(M, cls, op) in ("must-raise", "skip"):
            continue
        if _degree_after(M, op) > 8:
            # cost wall of the library, not a property: colour refinement tabulates all k! neighbour orders of a
            # descriptor-free atom (k = 10: ~1 GB, k = 11: tens of GB); histories stay at coordination numbers <= 8
            ctx.count("skipped:coordination-number-above-8")
            continue
        hist.append(op)
        uni = tuple(sorted(set(M["atoms"]) | {0, 1, ABSENT}, key=repr))[:6]
        if case.get("scale"):
            ok = step(ctx, g, M, cls, op, {**case, "length": i + 1}, uni, do_battery=(i % 10 == 9))
            ctx.count("random_history_ops")
            removals += op[0] in ("remove_atom", "remove_bond")
            desc_ops += "stereo" in op[0]
            if not ok:
                return
            continue
        hcase = {"kind": "history", "cls": cls, "history": hist[-60:] if len(hist) > 60 else list(hist), "note": "suffix of a random history" if len(hist) > 60 else "", "full": {"kind": "random", "cls": cls, "hseed": case["hseed"], "length": i + 1}}
        if len(hist) > 60:
            hcase = {"kind": "random", "cls": cls, "hseed": case["hseed"], "length": i + 1}
        ok = step(ctx, g, M, cls, op, hcase, uni, do_battery=(i % 12 == 0))
        ctx.count("random_history_ops")
        removals += op[0] in ("remove_atom", "remove_bond")
        desc_ops += "stereo" in op[0]
        if not ok:
            return
    ctx.case(("random", cls, case["hseed"], case["length"]), removals >= 1 and (cls not in STEREO or desc_ops >= 1))
    ctx.sample({"kind": "random-history", "class": cls, "ops": len(hist), "first_ops": hist[:5], "final_atoms": len(M["atoms"]), "final_bonds": len(M["bonds"])}, cap=1)
