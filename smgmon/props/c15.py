"""C15 - JSON serialisation round-trips every graph losslessly."""
from __future__ import annotations

import json
import random

from .. import gen, sem
from ..snapshot import CLASS_NAMES, DerivationWrong, build, build_case, case_graph_for_sample, case_pg, pg_from_json, pg_to_json, snap

LEVEL = "exploration"
RULE = (
    "random graphs of the four classes with arbitrary ids (negative, sparse, up to +-1e15), all six descriptor classes "
    "and parities incl. unspecified parity and None placeholders, every non-empty subset of {broken, fleeting, formed} per "
    "stereo change, formed/broken/fleeting bonds, isolated atoms, the empty graph; serialised with JSONHandler and "
    "deserialised; the snapshot of the result is compared view by view (atoms+elements, bonds+roles, descriptors with "
    "identical parity value and equivalent ordering, changes) with the snapshot of the original - not via == alone; "
    "then ==, hash. Non-trivial: non-empty graph; distinct by class + invariants + feature flags."
)
ASSUMPTIONS = ["attributes other than the element and the bond reaction role are not part of the statement and are not compared"]
ANCHORS = [
    "stereomolgraph.experimental:JSONHandler.as_dict",
    "stereomolgraph.experimental:JSONHandler.json_deserialize",
    "stereomolgraph.experimental:JSONHandler._stereo_from_payload",
]
REQUIRED_ANCHORS = ANCHORS
REQUIRED = ["roundtrips", "has_fleeting_bond", "has_placeholder", "has_none_parity", "has_change", "empty_graph", "scale_cases", "reloads_after_edit", "with_bond_attributes", "colliding_id_graphs", "base_class_views"] + [f"desc:{c}" for c in sem.CLASSES]


def _big_ids(rng, pg):
    ids = list(pg["atoms"])
    kind = rng.choice(["keep", "keep", "huge", "neg", "mixed-width", "mixed-width"])
    if kind == "keep":
        return pg
    if kind == "mixed-width":
        # ids of very different widths side by side in one graph / one descriptor: small ones next to ids around the
        # int32, float-mantissa (2**53), int64 and uint64 limits and far beyond (any detour through a fixed-width or
        # floating-point container shows)
        wide = [2**31 + 3, 2**53 + 1, 2**62 + 5, 2**63 - 1, 2**63 + 11, 2**64 - 3, 2**64 + 7, 10**30 + 1, -(2**63) - 5, -(2**53) - 1]
        k = rng.randint(1, min(3, len(ids)))
        tgt = [w + rng.randrange(0, 1000) * 2 for w in rng.sample(wide, k)]
        chosen = rng.sample(ids, k)
        if set(tgt) & set(ids) or len(set(tgt)) != k:  # (two wide bases plus offsets can coincide: not a relabelling)
            return pg
        return sem.pg_relabel(pg, dict(zip(chosen, tgt)))
    if kind == "huge":
        tgt = rng.sample(range(10**15 - 10**6, 10**15), len(ids))
    else:
        tgt = rng.sample(range(-(10**15), -(10**15) + 10**6), len(ids))
    return sem.pg_relabel(pg, dict(zip(ids, tgt)))


def gen_cases(ctx):
    rng = ctx.rng
    n = ctx.n(20000, 300000)
    for i in range(n):
        cls = CLASS_NAMES[i % 4]
        if (i // 4) % 60 == 7:
            pg = sem.pg_empty(cls)
        else:
            pg = gen.random_pg(rng, cls, n_range=(1, 12) if ctx.tier == "quick" else (1, 20), alphabet=rng.choice([gen.SMALL, gen.WIDE, tuple(range(1, 119))]), p_none=rng.choice([0, 0.3]), p_stereo=0.8, p_change=0.5, p_role=0.5, one_sided_bond_desc=0.3, max_deg=rng.choice([3, 4, 5, 6, 6]), attrs=(i // 4) % 4 == 1)  # a quarter with further atom / bond attributes (labels, charges, bond orders): not carried by the format, but the atoms and bonds that bear them are
            pg = _big_ids(rng, pg)
        case = {"cls": cls, "pg": pg_to_json(pg), "bseed": rng.randrange(1 << 30)}
        if cls in ("CondensedReactionGraph", "StereoCondensedReactionGraph") and (i // 4) % 10 == 3:
            # the reaction graph seen through a base class (MolGraph(crg), StereoMolGraph(scrg)): the copy keeps the bonds
            # of every role, with 'reaction' as an ordinary bond attribute
            case["view"] = "MolGraph" if cls == "CondensedReactionGraph" or rng.random() < 0.4 else "StereoMolGraph"
        yield case
    for k, nsz, cls, seed in gen.scale_specs(ctx, rng):
        yield {"cls": cls, "scale": nsz, "gseed": seed, "bseed": seed // 3}
    # descriptors that differ in nothing but two ids with colliding Python hashes (-1 / -2, x / x + 2**61 - 1)
    for i in range(ctx.n(480, 6000)):
        if i % 3 == 0:
            pg = gen.substitution_pg(rng)
        elif i % 3 == 1:
            pg = gen.cis_trans_pair_colliding(rng, CLASS_NAMES[1 + 2 * (i % 2)])[0]
        else:
            cls = CLASS_NAMES[1 + 2 * (i % 2)]
            pg = gen.twin_pair(rng, cls)[0]
            a_, b_ = gen._colliding_ids(rng)
            tw = sorted(pg["astereo"], key=repr)[:2]
            if len(tw) == 2 and a_ not in pg["atoms"] and b_ not in pg["atoms"]:
                pg = sem.pg_relabel(pg, {tw[0]: a_, tw[1]: b_})
        yield {"cls": pg["cls"], "pg": pg_to_json(pg), "bseed": rng.randrange(1 << 30), "family": "colliding-ids"}


def _only_reaction_attribute_on_base_class(g, h):
    """mechanism classifier of the recorded finding: g is a MolGraph / StereoMolGraph some of whose bonds carry a
    'reaction' attribute (the format stores no attributes; the base-class == honours this one), hashes agree, and g
    with that attribute deleted equals the loaded graph"""
    if type(g).__name__ not in ("MolGraph", "StereoMolGraph"):
        return False
    bonds = [b for b, v in g.bonds_with_attributes.items() if "reaction" in v]
    if not bonds or hash(g) != hash(h):
        return False
    g2 = g.copy()
    for b in bonds:
        g2.delete_bond_attribute(*tuple(b), "reaction")
    return bool(g2 == h) and bool(h == g2)


def check_case(ctx, case):
    from stereomolgraph.experimental import JSONHandler

    pg = case_pg(case)
    if "scale" in case:
        ctx.count("scale_cases")
    cls = case["cls"]
    try:
        g, via = build_case(pg, case["bseed"])
    except DerivationWrong as e:
        ctx.violate(f"C15/derived-input-differs/{cls}/{e.via}", f"deriving the input graph: {e}", case)
        ctx.case()
        return
    ctx.count(f"via:{via}")
    if case.get("view"):
        from ..snapshot import classes

        g = classes()[case["view"]](g)
        cls = case["view"]
        pg = snap(g)
        ctx.count("base_class_views")
    if any(set(v) - {"reaction"} for v in pg["bonds"].values()):
        ctx.count("with_bond_attributes")
    if case.get("family") == "colliding-ids":
        ctx.count("colliding_id_graphs")
    before = snap(g)
    descs = list(pg["astereo"].values()) + list(pg["bstereo"].values()) + [d for v in list(pg["achange"].values()) + list(pg["bchange"].values()) for d in v.values()]
    flags = []
    if any(v.get("reaction") == "FLEETING" for v in pg["bonds"].values()):
        flags.append("fleeting-bond")
        ctx.count("has_fleeting_bond")
    if any(None in d[1] for d in descs):
        flags.append("placeholder")
        ctx.count("has_placeholder")
    if any(d[2] is None for d in descs):
        ctx.count("has_none_parity")
    if pg["achange"] or pg["bchange"]:
        ctx.count("has_change")
        for v in list(pg["achange"].values()) + list(pg["bchange"].values()):
            ctx.count("change_subset:" + "+".join(sorted(v)))
    for d in descs:
        ctx.count(f"desc:{d[0]}")
    if not pg["atoms"]:
        ctx.count("empty_graph")
    ctx.case((sem.canon_key(pg), tuple(flags)), bool(pg["atoms"]))
    fkey = "+".join(flags) or "plain"
    try:
        s = JSONHandler.json_serialize(g)
        json.loads(s)
    except Exception as e:  # noqa: BLE001
        ctx.violate(f"C15/serialize-raises:{type(e).__name__}/{cls}/{fkey}", f"json_serialize raised {e!r}", case)
        return
    try:
        h = JSONHandler.json_deserialize(s)
    except Exception as e:  # noqa: BLE001
        ctx.violate(f"C15/deserialize-raises:{type(e).__name__}/{cls}/{fkey}", f"json_deserialize raised {e!r} on the library's own output", case)
        return
    ctx.count("roundtrips")
    if type(h) is not type(g):
        ctx.violate(f"C15/class-changed/{cls}", f"{cls} came back as {type(h).__name__}", case)
        return
    after = snap(h)
    want = before
    if case.get("view"):  # in a base class 'reaction' is an ordinary bond attribute, and the format carries no attributes
        want = sem.pg_copy(before)
        for v in want["bonds"].values():
            v.pop("reaction", None)
    diff = sem.pg_diff(want, after, mode="same", attrs=False)
    if diff:
        what = diff[0].split(":")[0].split("[")[0].split(" of ")[0]
        ctx.violate(f"C15/lossy/{cls}/{what.replace(' ', '-')}/{fkey}", f"round trip changed the graph: {'; '.join(diff[:3])}", case)
    if sem.pg_diff(before, snap(g), mode="exact"):
        ctx.violate(f"C15/serialize-mutates/{cls}", "json_serialize changed the serialised graph", case)
    if all(d[2] is not None for d in descs):
        try:
            if not (h == g) or hash(h) != hash(g):
                if not diff and _only_reaction_attribute_on_base_class(g, h):
                    ctx.count("base_class_views_unequal_after_roundtrip")
                    ctx.violate("C15/not-equal-after-roundtrip/base-class-graph-with-reaction-attribute", f"a {cls} whose bonds carry a 'reaction' attribute (a reaction graph seen through its base class) comes back with identical atoms, bonds, descriptors and hash but compares unequal", case)
                elif not diff:
                    ctx.violate(f"C15/not-equal-after-roundtrip/{cls}/{fkey}", "views identical but == / hash disagree", case)
        except Exception as e:  # noqa: BLE001
            ctx.violate(f"C15/eq-raises:{type(e).__name__}/{cls}/{fkey}", f"== / hash of the deserialised graph raised {e!r}", case)
    # history: the loaded graph is edited, then the same text is loaded again - the second load must still be the original
    # (a deserialiser that memoises by payload, or shares containers between loads, returns the edited object)
    if not diff and pg["atoms"]:
        try:
            fresh = max(abs(a) for a in pg["atoms"]) + 1
            h.add_atom(fresh, "Xe")
            h.remove_atom(next(iter(pg["atoms"])))
            h2 = JSONHandler.json_deserialize(s)
            ctx.count("reloads_after_edit")
            d2 = sem.pg_diff(want, snap(h2), mode="same", attrs=False)
            if d2 or h2 is h:
                ctx.violate(f"C15/reload-after-edit-differs/{cls}", f"loading the same JSON text again after editing the first loaded graph: {'same object returned' if h2 is h else d2[0]}", case)
        except Exception as e:  # noqa: BLE001
            ctx.violate(f"C15/reload-raises:{type(e).__name__}/{cls}", f"second load raised {e!r}", case)
    ctx.sample({"class": cls, "graph": case_graph_for_sample(case), "json": s[:400]})
