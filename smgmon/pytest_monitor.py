"""pytest plugin: runs the repository's own tests with the ambient monitors of smgmon.instrument installed.
Test outcomes are ignored by the checks; only monitor events and violations (written per process) count.
  PYTHONPATH=$SMG_REPO/src:/verif python -m pytest -p smgmon.pytest_monitor tests      SMG_AMBIENT_OUT=<dir>"""
from __future__ import annotations

import json
import os


def pytest_configure(config):
    from . import instrument

    n = instrument.install()
    config._smgmon_wrapped = n


def pytest_sessionfinish(session, exitstatus):
    from . import instrument

    out = os.environ.get("SMG_AMBIENT_OUT")
    if not out:
        return
    os.makedirs(out, exist_ok=True)
    with open(os.path.join(out, f"ambient-{os.getpid()}.json"), "w") as fh:
        json.dump({"events": instrument.EVENTS, "violations": instrument.VIOLATIONS, "wrapped": getattr(session.config, "_smgmon_wrapped", 0)}, fh, default=str)
