"""Plain-data capture of a real graph through its public views only, and the
reverse: building a real graph from plain data through the public mutators."""
from __future__ import annotations

from . import sem


def classes():
    from stereomolgraph.graphs.crg import CondensedReactionGraph
    from stereomolgraph.graphs.mg import MolGraph
    from stereomolgraph.graphs.scrg import StereoCondensedReactionGraph
    from stereomolgraph.graphs.smg import StereoMolGraph

    return {
        "MolGraph": MolGraph,
        "StereoMolGraph": StereoMolGraph,
        "CondensedReactionGraph": CondensedReactionGraph,
        "StereoCondensedReactionGraph": StereoCondensedReactionGraph,
    }


CLASS_NAMES = ("MolGraph", "StereoMolGraph", "CondensedReactionGraph", "StereoCondensedReactionGraph")
STEREO = ("StereoMolGraph", "StereoCondensedReactionGraph")
REACTION = ("CondensedReactionGraph", "StereoCondensedReactionGraph")


def desc_of(s) -> tuple:
    return (type(s).__name__, tuple(_pyint(a) for a in s.atoms), s.parity)


def _pyint(a):
    """ids that reached the graph as numpy integers (descriptor tuples computed with numpy) are reported as the equal
    Python ints"""
    if type(a) is int or a is None:
        return a
    try:
        import numpy as np

        if isinstance(a, np.integer):
            return int(a)
    except Exception:  # noqa: BLE001
        pass
    return a


NUMPY_PARITY = [False]  # build(..., numpy_parity=True): parities are handed over as numpy scalars (np.sign(...) results)


def mk_desc(d):
    import stereomolgraph.stereodescriptors as sd

    c, atoms, p = d
    if NUMPY_PARITY[0] and p is not None:
        import numpy as np

        p = (np.int64, np.int8, np.int32)[abs(hash((c, len(atoms)))) % 3](p)
    if NUMPY_PARITY[0] == "ids":
        # the ligand order was computed with numpy (argsort over coordinates, fancy indexing): the ids in the descriptor
        # are np.int64 scalars - equal to and hashing like the graph's Python ints, but not instances of int
        import numpy as np

        return getattr(sd, c)(tuple(np.int64(a) if type(a) is int and abs(a) < 2**62 else a for a in atoms), p)
    return getattr(sd, c)(fresh(tuple(atoms)), p)


def _attr(v):
    # Change enum -> its name; everything else unchanged
    name = getattr(v, "name", None)
    if name is not None and type(v).__name__ == "Change":
        return name
    return v


def snap(g) -> dict:
    """PG of a real graph.  Reads public views only."""
    cls = type(g).__name__
    pg = sem.pg_empty(cls)
    for a, attrs in g.atoms_with_attributes.items():
        pg["atoms"][a] = {k: _attr(v) for k, v in attrs.items()}
    for b, attrs in g.bonds_with_attributes.items():
        pg["bonds"][frozenset(b)] = {k: _attr(v) for k, v in attrs.items()}
    if hasattr(g, "atom_stereo"):
        for a, s in g.atom_stereo.items():
            pg["astereo"][_pyint(a)] = desc_of(s)
        for b, s in g.bond_stereo.items():
            pg["bstereo"][frozenset(_pyint(x) for x in b)] = desc_of(s)
    if hasattr(g, "atom_stereo_changes"):
        for a, cd in g.atom_stereo_changes.items():
            v = {ch.name: desc_of(s) for ch, s in cd.items() if s is not None}
            pg["achange"][_pyint(a)] = v
        for b, cd in g.bond_stereo_changes.items():
            v = {ch.name: desc_of(s) for ch, s in cd.items() if s is not None}
            pg["bchange"][frozenset(_pyint(x) for x in b)] = v
    return pg


def raw_views(g) -> dict:
    """Everything observable, *without* normalisation: used for 'a lookup changed a view'
    and for the coherence monitor.  Neighbour entries are kept raw."""
    pg = snap(g)
    pg["nbrs"] = {a: frozenset(n) for a, n in g.neighbors.items()}
    pg["atom_order"] = tuple(g.atoms)
    pg["atom_types"] = tuple(g.atom_types)
    return pg


def normalise(pg: dict) -> dict:
    """Sound normalisation (DESIGN 1.4): for atoms/bonds that ARE in the graph an empty
    neighbour set / empty change dict is the same as no entry.  Entries for absent keys
    are kept."""
    out = dict(pg)
    if "nbrs" in pg:
        out["nbrs"] = {a: n for a, n in pg["nbrs"].items() if n or a not in pg["atoms"]}
    out["achange"] = {a: v for a, v in pg["achange"].items() if v or a not in pg["atoms"]}
    out["bchange"] = {b: v for b, v in pg["bchange"].items() if v or b not in pg["bonds"]}
    return out


def views_equal(v1: dict, v2: dict) -> list[str]:
    """exact comparison of two (normalised) raw views; returns differences"""
    a, b = normalise(v1), normalise(v2)
    out = []
    for k in ("atoms", "bonds", "astereo", "bstereo", "achange", "bchange", "nbrs", "atom_types"):
        if k in a or k in b:
            if a.get(k) != b.get(k):
                out.append(f"view '{k}' changed: {_short(a.get(k))} -> {_short(b.get(k))}")
    if "atom_order" in a and set(a["atom_order"]) != set(b.get("atom_order", ())):
        out.append("atom set changed")
    return out


def _short(x, n=300):
    s = repr(x)
    return s if len(s) <= n else s[:n] + "..."


# ---------------------------------------------------------------------------
# building real graphs from plain data
# ---------------------------------------------------------------------------
# attribute names that coincide with parameter names of the mutators: they cannot be passed as keyword arguments of
# add_atom / add_bond and reach a graph through set_atom_attribute / set_bond_attribute (a PDB atom name stored as
# "atom", ...). Library code that forwards attribute dictionaries as **kwargs trips over them.
RESERVED_NAMES = ("atom", "self", "atom1", "atom2", "attr", "value", "cls", "mapping", "copy")


def fresh(x):
    """rebuilds every int as a NEW object (ids beyond CPython's small-int cache): two equal ids that reach the library
    from a file, JSON or arithmetic are equal but not identical - a harness that passes the very same object twice
    hides every `is` / `==` confusion"""
    if isinstance(x, bool) or x is None:
        return x
    if isinstance(x, int):
        return int(str(x))
    if isinstance(x, str):
        # likewise an attribute name / element symbol read from a file is equal to, not identical with, the literal
        return "".join(list(x)) if len(x) > 1 else x
    if isinstance(x, list):
        return [fresh(v) for v in x]
    if isinstance(x, tuple):
        return tuple(fresh(v) for v in x)
    if isinstance(x, frozenset):
        return frozenset(fresh(v) for v in x)
    if isinstance(x, dict):
        return {fresh(k): fresh(v) for k, v in x.items()}
    return x


def build(pg: dict, cls_name: str | None = None, rng=None, idmap=None, rewrite=False, numpy_parity=False):
    if numpy_parity:
        NUMPY_PARITY[0] = numpy_parity  # True: parities only; "ids": the ids inside descriptors as well
        try:
            return build(pg, cls_name, rng=rng, idmap=idmap, rewrite=rewrite)
        finally:
            NUMPY_PARITY[0] = False
    return _build(pg, cls_name, rng, idmap, rewrite)


def _build(pg: dict, cls_name: str | None = None, rng=None, idmap=None, rewrite=False):
    """Construct a real graph through the public mutators only.
    rng      : shuffles the insertion order of atoms, bonds, descriptors, changes
    idmap    : bijection applied to all ids (does not use relabel_atoms)
    rewrite  : every descriptor re-expressed by a random symmetry-equivalent ordering
    """
    from stereomolgraph.graphs.crg import Change

    C = classes()
    cls_name = cls_name or pg["cls"]
    g = C[cls_name]()
    if idmap:
        pg = sem.pg_relabel(pg, idmap)
    atoms = list(pg["atoms"].items())
    bonds = list(pg["bonds"].items())
    ast = list(pg["astereo"].values())
    bst = list(pg["bstereo"].values())
    ach = list(pg["achange"].values())
    bch = list(pg["bchange"].values())
    if rng is not None:
        for lst in (atoms, bonds, ast, bst, ach, bch):
            rng.shuffle(lst)
    for a, attrs in atoms:
        attrs = dict(attrs)
        z = attrs.pop("atom_type")
        late = {k: attrs.pop(k) for k in list(attrs) if k in RESERVED_NAMES}
        g.add_atom(fresh(a), z, **attrs)
        for k, v in late.items():
            g.set_atom_attribute(fresh(a), fresh(k), v)
    late_b = []
    for b, attrs in bonds:
        x, y = fresh(tuple(b))
        if rng is not None and rng.random() < 0.5:
            x, y = y, x
        attrs = dict(attrs)
        late_b.append((x, y, {k: attrs.pop(k) for k in list(attrs) if k in RESERVED_NAMES}))
        if "reaction" in attrs:
            role = attrs.pop("reaction")
            if cls_name in REACTION:
                how = rng.random() if rng is not None else 0.0
                if how < 0.5:
                    getattr(g, {"FORMED": "add_formed_bond", "BROKEN": "add_broken_bond", "FLEETING": "add_fleeting_bond"}[role])(x, y, **attrs)
                else:
                    g.add_bond(x, y, reaction=Change[role], **attrs)
            else:
                g.add_bond(x, y, **attrs)
        else:
            g.add_bond(x, y, **attrs)
    for x, y, late in late_b:
        for k, v in late.items():
            g.set_bond_attribute(x, y, fresh(k), v)
    if cls_name in STEREO:
        for d in ast:
            if rewrite:
                d = sem.rewrite_desc(d, rng)
            g.set_atom_stereo(mk_desc(d))
        for d in bst:
            if rewrite:
                d = sem.rewrite_desc(d, rng)
            g.set_bond_stereo(mk_desc(d))
    if cls_name == "StereoCondensedReactionGraph":
        for entries, setter in ((ach, "set_atom_stereo_change"), (bch, "set_bond_stereo_change")):
            for v in entries:
                kw, made = {}, {}
                for s, d in v.items():
                    if rewrite:
                        d = sem.rewrite_desc(d, rng)
                    # equal descriptors in several slots are handed over as ONE object (broken=t, fleeting=t)
                    if d not in made:
                        made[d] = mk_desc(d)
                    kw[s.lower()] = made[d]
                if kw:
                    getattr(g, setter)(**kw)
    return g


# ---------------------------------------------------------------------------
# JSON-able form of plain graphs (for replay files and evidence samples)
# ---------------------------------------------------------------------------
def pg_to_json(pg: dict) -> dict:
    def d2j(d):
        return [d[0], list(d[1]), d[2]]

    return {
        "cls": pg["cls"],
        "atoms": [[a, v] for a, v in pg["atoms"].items()],
        "bonds": [[sorted(b), v] for b, v in pg["bonds"].items()],
        "astereo": [d2j(d) for d in pg["astereo"].values()],
        "bstereo": [d2j(d) for d in pg["bstereo"].values()],
        "achange": [{s: d2j(d) for s, d in v.items()} for v in pg["achange"].values()],
        "bchange": [{s: d2j(d) for s, d in v.items()} for v in pg["bchange"].values()],
    }


def pg_from_json(j: dict) -> dict:
    def j2d(x):
        return (x[0], tuple(x[1]), x[2])

    pg = sem.pg_empty(j["cls"])
    for a, v in j["atoms"]:
        pg["atoms"][a] = dict(v)
    for b, v in j["bonds"]:
        pg["bonds"][frozenset(b)] = dict(v)
    for x in j["astereo"]:
        d = j2d(x)
        pg["astereo"][sem.desc_centre(d)] = d
    for x in j["bstereo"]:
        d = j2d(x)
        pg["bstereo"][sem.desc_centre(d)] = d
    for v in j["achange"]:
        vv = {s: j2d(x) for s, x in v.items()}
        pg["achange"][sem.desc_centre(next(iter(vv.values())))] = vv
    for v in j["bchange"]:
        vv = {s: j2d(x) for s, x in v.items()}
        pg["bchange"][sem.desc_centre(next(iter(vv.values())))] = vv
    return pg


# ---------------------------------------------------------------------------
# provenance: the same abstract graph reached through different library operations. Freshly built graphs keep all
# internal containers in insertion order; graphs that come out of subgraph / compose / relabel / removals / copies /
# deserialisation do not, so defects that depend on the internal order or container type only show on those.
# ---------------------------------------------------------------------------
VIAS = ("direct", "subgraph", "compose", "relabel-copy", "relabel-inplace", "copy", "copy-construct", "removals", "json")


def build_via(pg: dict, via: str, rng, cls_name: str | None = None):
    """returns a real graph whose abstract content is pg, produced through the derivation `via` (public API only)"""
    cls_name = cls_name or pg["cls"]
    C = classes()
    if via == "direct" or not pg["atoms"]:
        return build(pg, cls_name, rng=rng)
    if via == "json" and (any(set(v) - {"atom_type"} for v in pg["atoms"].values()) or any(set(v) - {"reaction"} for v in pg["bonds"].values())):
        via = "copy"  # the JSON format carries elements and bond roles only
    ids = list(pg["atoms"])
    if via in ("subgraph", "removals"):
        sup = sem.pg_copy(pg)
        fresh = max((abs(a) for a in ids), default=0) + 1
        extra = [fresh + k for k in range(rng.randint(1, 3))]
        if rng.random() < 0.5:
            extra = [-e for e in extra]
        for e in extra:
            sup["atoms"][e] = {"atom_type": rng.choice([1, 6, 8])}
            for t in rng.sample(ids, min(len(ids), rng.randint(0, 2))):
                sup["bonds"][frozenset((e, t))] = {}
        if cls_name.startswith("Stereo") and rng.random() < 0.6:
            # the surplus atoms are also LIGANDS of descriptors / stereo changes on centres and bonds that carry none in pg:
            # cutting the atom away has to take those entries with it, completely
            nb = sem.pg_neighbors(sup)
            for e in extra:
                for t in sorted(nb[e], key=repr):
                    if t in sup["astereo"] or t in sup["achange"] or not 3 <= len(nb[t]) <= 4 or rng.random() < 0.4:
                        continue
                    lig = sorted(nb[t], key=repr)
                    rng.shuffle(lig)
                    d = ("Tetrahedral", (t, *lig, *([None] * (4 - len(lig)))), rng.choice((1, -1)))
                    if cls_name.endswith("ReactionGraph") and rng.random() < 0.6:
                        sup["achange"][t] = {s_: d for s_ in rng.sample(["BROKEN", "FORMED", "FLEETING"], rng.randint(1, 3))}
                    else:
                        sup["astereo"][t] = d
                for t in sorted(nb[e], key=repr):
                    for u in sorted(nb[t] - {e}, key=repr):
                        b = frozenset((t, u))
                        if b in sup["bstereo"] or b in sup["bchange"] or "reaction" in sup["bonds"][b] or len(nb[t]) > 3 or len(nb[u]) > 3 or rng.random() < 0.5:
                            continue
                        lt = sorted(nb[t] - {u}, key=repr)
                        lu = sorted(nb[u] - {t}, key=repr)
                        d = ("PlanarBond", (*lt, *([None] * (2 - len(lt))), t, u, *lu, *([None] * (2 - len(lu)))), 0)
                        if cls_name.endswith("ReactionGraph") and rng.random() < 0.7:
                            sup["bchange"][b] = {s_: d for s_ in rng.sample(["BROKEN", "FORMED", "FLEETING"], rng.randint(1, 3))}
                        else:
                            sup["bstereo"][b] = d
                        break
        g = build(sup, cls_name, rng=rng)
        if via == "subgraph":
            order = ids[:]
            rng.shuffle(order)
            return g.subgraph(order if rng.random() < 0.7 else set(order))
        for e in extra:
            if rng.random() < 0.5:
                for b in [b for b in sup["bonds"] if e in b]:
                    g.remove_bond(*tuple(b))
            g.remove_atom(e)
        return g
    if via == "compose":
        k = rng.randint(1, len(ids))
        part = sem.pg_subgraph(pg, rng.sample(ids, k))
        pieces = [build(part, cls_name, rng=rng), build(pg, cls_name, rng=rng)]
        return C[cls_name].compose(pieces)
    if via in ("relabel-copy", "relabel-inplace"):
        tgt = [a + 7001 for a in range(len(ids))]
        rng.shuffle(tgt)
        m = dict(zip(ids, tgt))
        g = build(pg, cls_name, rng=rng, idmap=m)
        back = {v: k for k, v in m.items()}
        if via == "relabel-copy":
            return g.relabel_atoms(back, copy=True)
        g.relabel_atoms(back, copy=False)
        return g
    if via == "copy":
        return build(pg, cls_name, rng=rng).copy()
    if via == "copy-construct":
        return C[cls_name](build(pg, cls_name, rng=rng))
    if via == "json":
        from stereomolgraph.experimental import JSONHandler

        return JSONHandler.json_deserialize(JSONHandler.json_serialize(build(pg, cls_name, rng=rng)))
    raise ValueError(via)


class DerivationWrong(Exception):
    """the library operation used to derive an input graph did not produce the intended graph"""

    def __init__(self, via, what):
        super().__init__(f"{via}: {what}")
        self.via, self.what = via, what


def via_for(seed: int) -> str:
    k = seed % 15
    return VIAS[k] if k < len(VIAS) else "direct"


def build_case(pg: dict, seed: int, cls_name: str | None = None, via: str | None = None):
    """(graph, via): the abstract graph pg built through a seed-chosen provenance; raises DerivationWrong when the
    derived graph is not pg (that is a defect of the deriving operation, reported by the caller as a violation)."""
    import random

    rng = random.Random(seed)
    via = via or via_for(seed)
    try:
        g = build_via(pg, via, rng, cls_name)
    except Exception as e:  # noqa: BLE001
        raise DerivationWrong(via, f"raised {e!r}") from e
    if via != "direct":
        S = snap(g)
        S["achange"] = {k: v for k, v in S["achange"].items() if v}
        S["bchange"] = {k: v for k, v in S["bchange"].items() if v}
        want = sem.pg_copy(pg)
        want["achange"] = {k: v for k, v in want["achange"].items() if v}
        want["bchange"] = {k: v for k, v in want["bchange"].items() if v}
        if cls_name and cls_name != pg["cls"]:
            return g, via
        d = sem.pg_diff(want, S, mode="same", attrs=True)
        if d:
            raise DerivationWrong(via, d[0])
    return g, via


def case_pg(case: dict) -> dict:
    """the plain graph of a case: stored explicitly, or (very long chains) regenerated from its seed"""
    if "pg" in case:
        return pg_from_json(case["pg"])
    import random

    from . import gen

    return gen.scale_pg(random.Random(case["gseed"]), case["cls"], case["scale"])


def case_graph_for_sample(case: dict):
    return case["pg"] if "pg" in case else f"chain of {case['scale']} backbone atoms (gen.scale_pg, seed {case['gseed']})"
