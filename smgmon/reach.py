"""Reach monitor: counts executions of anchored functions (and of anchored source lines
found by text pattern) with sys.monitoring local events, alias-proof and without touching
the repository.  Anchor syntax:
    "module:qualname"                  function entry (PY_START)
    "module:qualname#<source pattern>" first line in that function containing the pattern
"""
from __future__ import annotations

import importlib
import inspect
import sys

TOOL = 3


def _resolve(spec):
    modname, _, rest = spec.partition(":")
    qual, _, pat = rest.partition("#")
    mod = importlib.import_module(modname)
    obj = mod
    for part in qual.split("."):
        obj = getattr(obj, part)
    obj = getattr(obj, "__func__", obj)
    obj = getattr(obj, "fget", obj)
    obj = inspect.unwrap(obj)
    return obj.__code__, pat


class Reach:
    def __init__(self, anchors):
        self.anchors = list(anchors)
        self._count = {a: 0 for a in self.anchors}
        self._by_code_start = {}
        self._by_code_line = {}
        self.errors = []
        self.on = False

    def start(self):
        if not self.anchors:
            return
        mon = sys.monitoring
        try:
            mon.use_tool_id(TOOL, "smgmon-reach")
        except ValueError:
            return
        self.on = True
        for a in self.anchors:
            try:
                code, pat = _resolve(a)
            except Exception as e:  # anchor vanished (refactoring): reported, not fatal
                self.errors.append(f"{a}: {e!r}")
                continue
            if not pat:
                self._by_code_start.setdefault(code, []).append(a)
            else:
                try:
                    lines, first = inspect.getsourcelines(code)
                except OSError as e:
                    self.errors.append(f"{a}: {e!r}")
                    continue
                hit = None
                for i, ln in enumerate(lines):
                    if pat in ln:
                        hit = first + i
                        break
                if hit is None:
                    self.errors.append(f"{a}: pattern not found")
                    continue
                self._by_code_line.setdefault(code, {})[hit] = a
        E = mon.events
        mon.register_callback(TOOL, E.PY_START, self._on_start)
        mon.register_callback(TOOL, E.LINE, self._on_line)
        for code in set(self._by_code_start) | set(self._by_code_line):
            ev = 0
            if code in self._by_code_start:
                ev |= E.PY_START
            if code in self._by_code_line:
                ev |= E.LINE
            mon.set_local_events(TOOL, code, ev)

    def _on_start(self, code, offset):
        for a in self._by_code_start.get(code, ()):
            self._count[a] += 1

    def _on_line(self, code, line):
        a = self._by_code_line.get(code, {}).get(line)
        if a is None:
            return sys.monitoring.DISABLE
        self._count[a] += 1

    def stop(self):
        if not self.on:
            return
        mon = sys.monitoring
        for code in set(self._by_code_start) | set(self._by_code_line):
            mon.set_local_events(TOOL, code, 0)
        mon.register_callback(TOOL, mon.events.PY_START, None)
        mon.register_callback(TOOL, mon.events.LINE, None)
        mon.free_tool_id(TOOL)
        self.on = False

    def counts(self):
        out = dict(self._count)
        for e in self.errors:
            out["ERROR " + e] = 0
        return out
