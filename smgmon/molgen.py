"""Random organic molecules as RDKit molecules / SMILES - an input source for the conversion properties (C12, C13, C14,
C18) beyond their fixed corpora. Molecules are grown atom by atom under standard valences (neutral, closed shell), so
they are valid by construction; RDKit is only used as a container and to sanitise.

The generator varies what a fixed list cannot: ring sizes 3..12, fused / spiro / bridged closures, many stereo centres in
one molecule, double bonds in rings and chains, heteroatoms with lone pairs (N, P, S centres), long chains."""
from __future__ import annotations

VAL = {6: 4, 7: 3, 8: 2, 16: 2, 15: 3, 9: 1, 17: 1, 35: 1, 53: 1}
HEAVY = [6] * 10 + [7, 7, 8, 8, 8, 16, 15, 9, 17, 35, 53]


def random_mol(rng, n_heavy=(4, 14), p_ring=0.5, p_double=0.18, p_triple=0.03, allow_cumulated=False, max_ring_closures=3, elements=None, bredt=False):
    """returns an RDKit Mol (no explicit hydrogens, sanitised) or None"""
    from rdkit import Chem

    elements = elements or HEAVY
    n = rng.randint(*n_heavy)
    z = [6] + [rng.choice(elements) for _ in range(n - 1)]
    free = [VAL[x] for x in z]
    bonds: dict = {}
    multi = [0] * n  # number of multiple bonds at each atom

    def can_multi(i):
        return allow_cumulated or multi[i] == 0

    for i in range(1, n):
        cands = [j for j in range(i) if free[j] >= 1]
        if not cands:
            n = i
            break
        j = rng.choice(cands[-5:]) if rng.random() < 0.6 else rng.choice(cands)
        order = 1
        r = rng.random()
        if r < p_triple and free[i] >= 3 and free[j] >= 3 and multi[i] == 0 and multi[j] == 0 and z[i] in (6, 7) and z[j] in (6, 7):
            order = 3
        elif r < p_triple + p_double and free[i] >= 2 and free[j] >= 2 and can_multi(i) and can_multi(j) and z[i] in (6, 7, 8, 16) and z[j] in (6, 7):
            order = 2
        bonds[(j, i)] = order
        free[i] -= order
        free[j] -= order
        if order > 1:
            multi[i] += 1
            multi[j] += 1
    z, free, multi = z[:n], free[:n], multi[:n]
    # ring closures
    adj = {i: set() for i in range(n)}
    for (a, b) in bonds:
        adj[a].add(b)
        adj[b].add(a)

    def dist(a, b, cap=14):
        seen, frontier, d = {a}, [a], 0
        while frontier and d < cap:
            d += 1
            nxt = []
            for x in frontier:
                for y in adj[x]:
                    if y == b:
                        return d
                    if y not in seen:
                        seen.add(y)
                        nxt.append(y)
            frontier = nxt
        return cap

    for _ in range(max_ring_closures):
        if rng.random() > p_ring:
            continue
        cands = [i for i in range(n) if free[i] >= 1 and multi[i] < 2]
        rng.shuffle(cands)
        done = False
        for a in cands:
            for b in cands:
                if a < b and (a, b) not in bonds and 2 <= dist(a, b) <= 11:
                    triple_near = any(o == 3 and (a in k or b in k) for k, o in bonds.items())
                    if triple_near:
                        continue
                    order = 1
                    if rng.random() < p_double and free[a] >= 2 and free[b] >= 2 and can_multi(a) and can_multi(b) and z[a] in (6, 7) and z[b] in (6, 7) and dist(a, b) >= 4:
                        order = 2
                    bonds[(a, b)] = order
                    free[a] -= order
                    free[b] -= order
                    if order > 1:
                        multi[a] += 1
                        multi[b] += 1
                    adj[a].add(b)
                    adj[b].add(a)
                    done = True
                    break
            if done:
                break
    rw = Chem.RWMol()
    for x in z:
        rw.AddAtom(Chem.Atom(x))
    bt = {1: Chem.BondType.SINGLE, 2: Chem.BondType.DOUBLE, 3: Chem.BondType.TRIPLE}
    for (a, b), o in bonds.items():
        rw.AddBond(a, b, bt[o])
    try:
        m = rw.GetMol()
        Chem.SanitizeMol(m)
    except Exception:  # noqa: BLE001
        return None
    if any(a.GetNumRadicalElectrons() or a.GetFormalCharge() for a in m.GetAtoms()):
        return None
    if not ring_double_bonds_consistent(m):
        return None
    if bredt and not no_bridgehead_alkenes(m):
        return None
    return m


def no_bridgehead_alkenes(m):
    """Bredt: no atom of a (non-aromatic) double bond belongs to more than one ring"""
    from rdkit import Chem

    ri = m.GetRingInfo()
    for b in m.GetBonds():
        if b.GetBondType() == Chem.BondType.DOUBLE and not b.GetIsAromatic():
            for x in (b.GetBeginAtomIdx(), b.GetEndAtomIdx()):
                if ri.NumAtomRings(x) > 1:
                    return False
    return True


def ring_double_bonds_consistent(m, max_ring=7):
    """False for anti-Bredt monsters: a double bond lying in several small rings (ALL simple cycles up to max_ring
    atoms, not only the SSSR ones) whose 'substituents inside the ring are cis' requirements contradict each other, e.g.
    the bridgehead alkene of a bicyclo[3.1.1]heptene or bicyclo[1.1.1]pentene. No planar arrangement exists for such
    a bond and which ring an SSSR perception reports for it depends on the atom numbering."""
    from rdkit import Chem

    adj = {a.GetIdx(): [n.GetIdx() for n in a.GetNeighbors()] for a in m.GetAtoms()}
    for b in m.GetBonds():
        if b.GetBondType() != Chem.BondType.DOUBLE and not b.GetIsAromatic():
            continue
        x, y = b.GetBeginAtomIdx(), b.GetEndAtomIdx()
        pairs = set()
        # all simple paths x -> y of <= max_ring - 1 bonds that avoid the bond itself
        stack = [(x, (x,))]
        while stack:
            cur, path = stack.pop()
            if len(path) > max_ring:
                continue
            for n in adj[cur]:
                if n == y:
                    if len(path) >= 2:
                        pairs.add((path[1], path[-1]))
                    continue
                if n in path:
                    continue
                stack.append((n, path + (n,)))
        if len({p[0] for p in pairs}) != len(pairs) or len({p[1] for p in pairs}) != len(pairs):
            return False
    return True


def random_smiles(rng, **kw):
    from rdkit import Chem

    for _ in range(20):
        m = random_mol(rng, **kw)
        if m is not None:
            return Chem.MolToSmiles(m)
    return None


def stereoisomers(smiles, rng, max_isomers=8):
    """a random sample of the stereoisomers RDKit enumerates for the flat SMILES (canonical isomeric SMILES)"""
    from rdkit import Chem
    from rdkit.Chem.EnumerateStereoisomers import EnumerateStereoisomers, StereoEnumerationOptions

    m = Chem.MolFromSmiles(smiles)
    if m is None:
        return []
    opts = StereoEnumerationOptions(unique=True, maxIsomers=max_isomers, rand=rng.randrange(1 << 30), tryEmbedding=False)
    try:
        return sorted({Chem.MolToSmiles(x) for x in EnumerateStereoisomers(m, options=opts)})
    except Exception:  # noqa: BLE001
        return []
