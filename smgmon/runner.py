"""Sharded execution, evidence, replay, verdicts.

Every property module (smgmon.props.cXX) provides
    LEVEL, RULE, ASSUMPTIONS, ANCHORS (list of reach anchors, see reach.py)
    gen_cases(ctx)      -> iterator of JSON-able case dicts (seeded from ctx.rng)
    check_case(ctx, c)  -> runs the real code on the case under the monitors/oracle,
                           calls ctx.case(...), ctx.violate(...)
    optional: setup(ctx), finish(ctx), REQUIRED (counter names that must be > 0)
"""
from __future__ import annotations

import hashlib
import importlib
import json
import os
import random
import signal
import subprocess
import sys
import time
import traceback
from collections import Counter
from pathlib import Path

VERIF = Path(__file__).resolve().parent.parent
REPO = Path(os.environ.get("SMG_REPO", "/repo"))
PY = os.environ.get("SMG_PY", "/venv/bin/python")
NSHARDS = int(os.environ.get("SMG_SHARDS", "16"))


class CaseTimeout(BaseException):
    pass


def _alarm(signum, frame):
    raise CaseTimeout()


def digest_sources() -> str:
    h = hashlib.sha256()
    for p in sorted((REPO / "src" / "stereomolgraph").rglob("*.py")):
        h.update(str(p.relative_to(REPO)).encode())
        h.update(p.read_bytes())
    return h.hexdigest()[:16]


def keyhash(key) -> str:
    return hashlib.md5(repr(key).encode()).hexdigest()[:12]


class Ctx:
    def __init__(self, prop, tier, seed, shard, nshards, replay=False):
        self.prop, self.tier, self.seed, self.shard, self.nshards = prop, tier, seed, shard, nshards
        self.rng = random.Random(f"{seed}/{prop}/{shard}")
        self.counters: Counter = Counter()
        self.distinct: set[str] = set()
        self.evaluations = 0
        self.violations: list[dict] = []
        self.samples: list = []
        self.inconclusive_cases = 0
        self.replay_mode = replay
        self.current_case = None
        self.t0 = time.time()
        self.soft_deadline = self.t0 + float(os.environ.get("SMG_SOFT_S", "170" if tier == "quick" else "3000"))
        self.truncated = False
        self.extra: dict = {}
        self.distinct_bulk = 0

    # -- sizing -----------------------------------------------------------
    def n(self, quick: int, thorough: int) -> int:
        """per-run totals -> per-shard share"""
        tot = quick if self.tier == "quick" else thorough
        scale = float(os.environ.get("SMG_SCALE", "1"))
        tot = max(1, int(tot * scale))
        base, rem = divmod(tot, self.nshards)
        return base + (1 if self.shard < rem else 0)

    def time_left(self) -> bool:
        if time.time() > self.soft_deadline:
            self.truncated = True
            return False
        return True

    # -- recording --------------------------------------------------------
    def case(self, key=None, nontrivial=True, n=1):
        self.evaluations += n
        if nontrivial and key is not None:
            self.distinct.add(keyhash(key))

    def bulk(self, n_eval, n_distinct):
        """cases that are distinct by enumeration (disjoint between shards): counted, not hashed"""
        self.evaluations += n_eval
        self.distinct_bulk += n_distinct

    def count(self, name, n=1):
        self.counters[name] += n

    def sample(self, obj, cap=2):
        if len(self.samples) < cap:
            self.samples.append(obj)

    def violate(self, key: str, what: str, case=None, detail=None):
        """key: mechanism key (structural, no seeds/ids); what: human text"""
        case = case if case is not None else self.current_case
        if "MemoryError" in key:
            # the worker's address-space cap was hit (worker_main): a cost wall of the library on this input, not an
            # observation about the property - inconclusive, never a violation
            self.inconclusive_cases += 1
            self.count("case_out_of_memory")
            return
        rec = {"key": key, "what": what[:600], "detail": detail}
        n_same = sum(1 for v in self.violations if v["key"] == key)
        self.counters["violation:" + key] += 1
        if n_same < 3:
            rdir = VERIF / "replays"
            rdir.mkdir(exist_ok=True)
            safe = "".join(ch if ch.isalnum() or ch in "-_." else "_" for ch in key)[:80]
            path = rdir / f"{self.prop}-{safe}-s{self.seed}-{self.shard}-{n_same}.json"
            if not self.replay_mode:
                path.write_text(json.dumps({"property": self.prop, "key": key, "what": what, "detail": detail, "seed": self.seed, "shard": self.shard, "tier": self.tier, "case": case}, default=str, indent=1))
            rec["replay"] = str(path)
            self.violations.append(rec)

    def result(self):
        return {
            "shard": self.shard,
            "evaluations": self.evaluations,
            "distinct": sorted(self.distinct),
            "distinct_bulk": self.distinct_bulk,
            "counters": dict(self.counters),
            "violations": self.violations,
            "samples": self.samples,
            "inconclusive_cases": self.inconclusive_cases,
            "truncated": self.truncated,
            "extra": self.extra,
            "wall_s": time.time() - self.t0,
        }


def load_module(prop):
    return importlib.import_module(f"smgmon.props.{prop.lower()}")


def run_cases(ctx: Ctx, mod, cases):
    case_timeout = float(getattr(mod, "CASE_TIMEOUT", 20.0))
    signal.signal(signal.SIGALRM, _alarm)
    for case in cases:
        ctx.current_case = case
        signal.setitimer(signal.ITIMER_REAL, case_timeout)
        try:
            mod.check_case(ctx, case)
        except CaseTimeout:
            ctx.inconclusive_cases += 1
            ctx.count("case_timeout")
            if len(ctx.extra.setdefault("timeout_cases", [])) < 2:
                ctx.extra["timeout_cases"].append(case)
        except TimeoutError:
            ctx.inconclusive_cases += 1
            ctx.count("reference_budget_exhausted")
        except MemoryError:
            ctx.inconclusive_cases += 1
            ctx.count("case_out_of_memory")
        finally:
            signal.setitimer(signal.ITIMER_REAL, 0)
        if not ctx.time_left():
            break


def worker_main(prop, tier, seed, shard, nshards, out):
    from . import reach, sem

    assert_repo()
    try:  # a runaway input must fail inside its own worker (MemoryError -> inconclusive), not take the machine down
        import resource

        cap = int(float(os.environ.get("SMG_WORKER_MEM_GB", "10")) * 2**30)
        resource.setrlimit(resource.RLIMIT_AS, (cap, cap))
    except Exception:  # noqa: BLE001
        pass
    sem.self_test()
    mod = load_module(prop)
    ctx = Ctx(prop, tier, seed, shard, nshards)
    mon = reach.Reach(getattr(mod, "ANCHORS", []))
    mon.start()
    try:
        if hasattr(mod, "setup"):
            mod.setup(ctx)
        if shard == 0:
            # committed witnesses (known findings, fixed defects): always re-run, deterministic
            wit = [json.loads(p.read_text())["case"] for p in sorted((VERIF / "witnesses").glob(f"{prop}-*.json"))]
            ctx.count("witness_cases", len(wit))
            run_cases(ctx, mod, wit)
        run_cases(ctx, mod, mod.gen_cases(ctx))
        if hasattr(mod, "finish"):
            mod.finish(ctx)
    finally:
        mon.stop()
    res = ctx.result()
    res["anchors"] = mon.counts()
    Path(out).write_text(json.dumps(res, default=str))


def assert_repo():
    import stereomolgraph

    f = Path(stereomolgraph.__file__).resolve()
    if not str(f).startswith(str((REPO / "src").resolve())):
        raise SystemExit(f"HARNESS-ERROR stereomolgraph imported from {f}, expected under {REPO}/src")


def child_env():
    env = dict(os.environ)
    env["PYTHONPATH"] = f"{REPO}/src:{VERIF}" + (":" + str(VERIF / ".deps"))
    env.setdefault("PYTHONHASHSEED", "0")
    env["PYTHONDONTWRITEBYTECODE"] = "1"
    env["SMG_VERIF"] = "1"
    env["OMP_NUM_THREADS"] = "1"
    env["OPENBLAS_NUM_THREADS"] = "1"
    return env


def parent_main(prop, tier, seed):
    from . import findings

    t0 = time.time()
    mod_info = subprocess.run([PY, "-c", f"import json,smgmon.props.{prop.lower()} as m;print(json.dumps(dict(level=m.LEVEL,rule=m.RULE,assumptions=m.ASSUMPTIONS,required=getattr(m,'REQUIRED',[]),req_anchors=getattr(m,'REQUIRED_ANCHORS',[]),min_nt=getattr(m,'MIN_DISTINCT',2),exhaustive=getattr(m,'EXHAUSTIVE',{{}}).get('{tier}',False),nshards=getattr(m,'NSHARDS',None))))"], env=child_env(), capture_output=True, text=True, cwd=VERIF)
    if mod_info.returncode != 0:
        print(mod_info.stderr[-3000:])
        print(f"INCONCLUSIVE property={prop} reason=harness-or-package-import-failed")
        write_evidence(prop, tier, seed, "exploration", {"evaluations": 0, "distinct_nontrivial": 0, "rule": "import failed", "samples": [], "stderr": mod_info.stderr[-2000:]}, [], time.time() - t0, 0)
        return 2
    info = json.loads(mod_info.stdout.strip().splitlines()[-1])
    nshards = info["nshards"] or NSHARDS
    tmp = VERIF / ".run" / f"{prop}-{os.getpid()}"
    tmp.mkdir(parents=True, exist_ok=True)
    procs = []
    hard = float(os.environ.get("SMG_HARD_S", "900" if tier == "quick" else "7200"))
    for sh in range(nshards):
        out = tmp / f"{sh}.json"
        err = open(tmp / f"{sh}.err", "w")
        launcher = [PY, "-X", "faulthandler", "-m"]
        if os.environ.get("SMG_COVERAGE"):  # tools/coverage_report.sh: line/branch coverage of the library under the monitors' workloads
            launcher += ["coverage", "run", "-p", "--branch", f"--data-file={os.environ['SMG_COVERAGE']}", "--source=stereomolgraph", "-m"]
        p = subprocess.Popen([*launcher, "smgmon", "--worker", prop, tier, str(seed), str(sh), str(nshards), str(out)], env=child_env(), cwd=VERIF, stdout=err, stderr=err)
        procs.append((sh, p, out, err))
    results, dead = [], []
    for sh, p, out, err in procs:
        try:
            p.wait(timeout=max(1.0, hard - (time.time() - t0)))
        except subprocess.TimeoutExpired:
            p.kill()
            p.wait()
        err.close()
        if p.returncode == 0 and out.exists():
            results.append(json.loads(out.read_text()))
        else:
            dead.append({"shard": sh, "returncode": p.returncode, "stderr": (tmp / f"{sh}.err").read_text()[-1500:]})
    # merge
    evaluations = sum(r["evaluations"] for r in results)
    distinct = set()
    counters: Counter = Counter()
    anchors: Counter = Counter()
    samples, violations = [], []
    inconcl = 0
    extra: dict = {}
    for r in results:
        distinct.update(r["distinct"])
        counters.update(r["counters"])
        anchors.update(r.get("anchors", {}))
        samples.extend(r["samples"][:1])
        violations.extend(r["violations"])
        inconcl += r["inconclusive_cases"]
        for k, v in r.get("extra", {}).items():
            if k.startswith("min:") and isinstance(v, (int, float)):
                extra[k] = min(extra.get(k, v), v)
            elif k.startswith("max:") and isinstance(v, (int, float)):
                extra[k] = max(extra.get(k, v), v)
            elif isinstance(v, (int, float)):
                extra[k] = extra.get(k, 0) + v
            elif isinstance(v, list):
                extra.setdefault(k, []).extend(v)
            else:
                extra[k] = v
    n_distinct = len(distinct) + sum(r.get('distinct_bulk', 0) for r in results)
    known = findings.load()
    new_v, known_v = [], {}
    for v in violations:
        hit = findings.match(known, prop, v["key"])
        if hit:
            known_v.setdefault(hit[0], (hit[1], v))
        else:
            new_v.append(v)
    for key, (text, v) in sorted(known_v.items()):
        print(f"KNOWN-FINDING: property={prop} key={key} {text}")
    status = 0
    seen_keys = set()
    for v in new_v:
        if v["key"] in seen_keys:
            continue
        seen_keys.add(v["key"])
        print(f"VIOLATION property={prop} replay={v.get('replay')} key={v['key']} :: {v['what'][:300]}")
        status = 1
    reasons = []
    if dead:
        reasons.append(f"{len(dead)} worker(s) died or timed out")
        for d in dead[:2]:
            print(f"worker {d['shard']} rc={d['returncode']}: {d['stderr'][-800:]}")
    for name in info["required"]:
        if counters.get(name, 0) == 0:
            reasons.append(f"deciding monitor never reached: counter '{name}' is 0")
    unresolved = sorted(k[6:] for k in anchors if k.startswith("ERROR "))
    for name in info["req_anchors"]:
        if anchors.get(name, 0) == 0:
            if "#" in name and any(u.startswith(name + ":") for u in unresolved):
                continue  # a source-text pattern that no longer exists (refactoring): reported, not judged
            reasons.append(f"anchored code never executed: '{name}'")
    if evaluations and inconcl > 0.01 * evaluations:
        reasons.append(f"{inconcl} of {evaluations} cases inconclusive (timeouts)")
    if n_distinct < info["min_nt"]:
        reasons.append(f"only {n_distinct} distinct non-trivial cases")
    if any(r.get("truncated") for r in results):
        extra["truncated_shards"] = sum(1 for r in results if r.get("truncated"))
    n_viol_total = sum(c for k, c in counters.items() if k.startswith("violation:"))
    cov = {
        "evaluations": evaluations,
        "distinct_nontrivial": n_distinct,
        "rule": info["rule"],
        "samples": samples[:6] or ["(no sample recorded)"],
        "counters": {k: v for k, v in sorted(counters.items()) if not k.startswith("violation:")},
        "violation_keys": {k[len("violation:"):]: v for k, v in sorted(counters.items()) if k.startswith("violation:")},
        "anchors": {k: v for k, v in sorted(anchors.items()) if not k.startswith("ERROR ")},
        "anchors_unresolved": unresolved,
        "known_findings_seen": sorted(known_v),
        "inconclusive_cases": inconcl,
        "inconclusive_reasons": reasons,
        "shards": len(results),
        "dead_workers": dead,
        "source_digest": digest_sources(),
        "repo": str(REPO),
        **extra,
    }
    if info["exhaustive"] and not reasons and not cov.get("truncated_shards"):
        cov["exhaustive"] = True
    wall = time.time() - t0
    write_evidence(prop, tier, seed, info["level"], cov, info["assumptions"], wall, len(new_v))
    for f in tmp.iterdir():
        f.unlink()
    tmp.rmdir()
    if status == 1:
        return 1
    if reasons:
        print(f"INCONCLUSIVE property={prop} reason={'; '.join(reasons)}")
        return 2
    print(f"HELD property={prop} tier={tier} seed={seed} evaluations={evaluations} distinct_nontrivial={n_distinct} known_findings={len(known_v)} wall_s={wall:.1f}")
    return 0


def write_evidence(prop, tier, seed, level, cov, assumptions, wall, nviol):
    ev = {
        "property_id": prop,
        "tier": tier,
        "seed": int(seed),
        "level": level,
        "coverage": cov,
        "assumptions": assumptions,
        "wall_s": round(wall, 2),
        "violations": nviol,
    }
    d = VERIF / "evidence"
    d.mkdir(exist_ok=True)
    (d / f"{prop}.json").write_text(json.dumps(ev, indent=1, default=str))


def replay_main(prop, path):
    from . import sem

    assert_repo()
    sem.self_test()
    data = json.loads(Path(path).read_text())
    mod = load_module(prop)
    ctx = Ctx(prop, data.get("tier", "quick"), data.get("seed", 0), data.get("shard", 0), 1, replay=True)
    if hasattr(mod, "setup"):
        mod.setup(ctx)
    try:
        run_cases(ctx, mod, [data["case"]])
    except Exception:
        traceback.print_exc()
        return 2
    if ctx.violations:
        for v in ctx.violations:
            print(f"VIOLATION property={prop} replay={path} key={v['key']} :: {v['what']}")
        return 1
    print(f"REPLAY property={prop}: no violation reproduced ({ctx.evaluations} evaluations)")
    return 0


def main(argv=None):
    argv = list(sys.argv[1:] if argv is None else argv)
    if argv and argv[0] == "--worker":
        _, prop, tier, seed, shard, nshards, out = argv
        worker_main(prop, tier, int(seed), int(shard), int(nshards), out)
        return 0
    if argv and argv[0] == "--selftest":
        from .selftest import main as st

        return st()
    prop = argv[0].upper()
    if "--replay" in argv:
        return replay_main(prop, argv[argv.index("--replay") + 1])
    tier = "quick"
    for a in argv[1:]:
        if a in ("quick", "thorough"):
            tier = a
    if "--tier" in argv:
        tier = argv[argv.index("--tier") + 1]
    seed = int(os.environ.get("VERIF_SEED", "0") or 0)
    return parent_main(prop, tier, seed)
