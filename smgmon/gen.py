"""Seeded workload generators producing plain graphs (PG, see sem.py)."""
from __future__ import annotations

import itertools
import random

from . import sem
from .snapshot import REACTION, STEREO

TINY = (6, 1)
SMALL = (6, 1, 8, 7)
WIDE = (1, 6, 7, 8, 9, 15, 16, 17, 35, 53, 5, 14)
ROLES = ("FORMED", "BROKEN", "FLEETING")


def make_ids(rng: random.Random, n: int, kind: str | None = None) -> list[int]:
    if kind is None and n >= 2 and rng.random() < 0.08:
        # ids that double as sentinels in careless code: 0 (falsy) and -1 ("not found" / "no atom") among ordinary
        # ones, and ids whose Python hashes collide: hash(-1) == hash(-2), hash(x) == hash(x + 2**61 - 1)
        ids = rng.sample(range(2, 10 * n + 20), n)
        pos = list(range(n))
        rng.shuffle(pos)
        special = [0, -1, -2] if rng.random() < 0.7 else [-1, -2, ids[pos[-1]] + 2**61 - 1]
        for p_, v in zip(pos, special):
            ids[p_] = v
        return ids
    kind = kind or rng.choice(["range", "range", "shuffled", "sparse", "negative", "large"] * 3 + ["huge"])
    if kind == "range":
        return list(range(n))
    if kind == "shuffled":
        ids = list(range(n))
        rng.shuffle(ids)
        return ids
    if kind == "sparse":
        return rng.sample(range(0, 10 * n + 20), n)
    if kind == "negative":
        return rng.sample(range(-5 * n - 10, 5 * n + 10), n)
    if kind == "huge":  # beyond int32, up to just below int64 (ids that end up in fixed-width integer arrays)
        base = rng.choice([2**31 - n // 2, 2**32 - n // 2, 2**53, 2**62])
        sign = rng.choice([1, 1, -1])
        return [sign * x for x in rng.sample(range(base, base + 50 * n + 100), n)]
    return rng.sample(range(10**6, 10**6 + 50 * n + 100), n)


def skeleton(rng, n, max_deg=4, p_ring=0.3, n_comp=1, n_isolated=0):
    """random simple graph on 0..n-1: forest with n_comp trees plus ring closures,
    then n_isolated extra atoms without bonds."""
    deg = [0] * n
    edges: set[frozenset] = set()
    order = list(range(n))
    rng.shuffle(order)
    roots = order[: max(1, min(n_comp, n))]
    placed = list(roots)
    for v in order[len(roots):]:
        cands = [u for u in placed if deg[u] < max_deg]
        if not cands:
            placed.append(v)
            continue
        # prefer recently placed atoms a bit (longer chains) mixed with hubs
        u = rng.choice(cands[-4:]) if rng.random() < 0.5 else rng.choice(cands)
        edges.add(frozenset((u, v)))
        deg[u] += 1
        deg[v] += 1
        placed.append(v)
    n_ring = sum(rng.random() < p_ring for _ in range(max(1, n // 4)))
    for _ in range(n_ring):
        cands = [u for u in range(n) if deg[u] < max_deg]
        if len(cands) < 2:
            break
        u, v = rng.sample(cands, 2)
        if frozenset((u, v)) not in edges:
            edges.add(frozenset((u, v)))
            deg[u] += 1
            deg[v] += 1
    return n + n_isolated, edges


def _atom_desc(rng, centre, nbrs, p_none, allow_unspec=True):
    k = len(nbrs)
    nb = list(nbrs)
    rng.shuffle(nb)
    if k == 3:
        lig = nb + [None]
        if rng.random() < 0.5:
            rng.shuffle(lig)
        cls = "Tetrahedral"
    elif k == 4:
        lig = nb
        cls = "Tetrahedral" if rng.random() < 0.7 else "SquarePlanar"
    elif k == 5:
        lig, cls = nb, "TrigonalBipyramidal"
    elif k == 6:
        lig, cls = nb, "Octahedral"
    else:
        return None
    par = rng.choice(sem.PARITY_DOMAIN[cls])
    if allow_unspec and rng.random() < p_none:
        par = None
    return (cls, (centre, *lig), par)


def _bond_desc(rng, a, b, na, nb, p_none, allow_unspec=True):
    """na / nb: other neighbours of a / b (0..2 each)"""
    if len(na) > 2 or len(nb) > 2:
        return None
    if not na and not nb:
        return None
    la = list(na) + [None] * (2 - len(na))
    lb = list(nb) + [None] * (2 - len(nb))
    rng.shuffle(la)
    rng.shuffle(lb)
    cls = "PlanarBond" if rng.random() < 0.75 else "AtropBond"
    par = rng.choice(sem.PARITY_DOMAIN[cls])
    if allow_unspec and rng.random() < p_none:
        par = None
    return (cls, (la[0], la[1], a, b, lb[0], lb[1]), par)


def random_pg(
    rng: random.Random,
    cls: str,
    n_range=(1, 10),
    alphabet=SMALL,
    p_stereo=0.6,
    p_none=0.0,
    p_change=0.35,
    p_role=0.35,
    max_deg=None,
    id_kind=None,
    attrs=False,
    allow_empty=False,
    allow_isolated=True,
    one_sided_bond_desc=0.05,
    p_invalid=0.15,
    p_hub=0.08,
):
    if allow_empty and rng.random() < 0.02:
        return sem.pg_empty(cls)
    n = rng.randint(*n_range)
    n_iso = 0
    n_comp = 1
    if allow_isolated and n >= 2 and rng.random() < 0.25:
        n_iso = rng.randint(1, max(1, n // 4))
        n -= n_iso
    if n >= 4 and rng.random() < 0.3:
        n_comp = rng.randint(2, 3)
    if max_deg is None:
        max_deg = rng.choice([3, 4, 4, 4, 5, 6])
    ntot, edges = skeleton(rng, n, max_deg=max_deg, p_ring=rng.choice([0, 0.3, 0.6]), n_comp=n_comp, n_isolated=n_iso)
    if n >= 1 and rng.random() < p_hub:
        # a coordination centre: one atom gets 5 or 6 neighbours (new leaves)
        hub = rng.randrange(n)
        want = rng.choice([5, 6])
        have = sum(1 for e in edges if hub in e)
        for _ in range(max(0, want - have)):
            edges.add(frozenset((hub, ntot)))
            ntot += 1
    ids = make_ids(rng, ntot, id_kind)
    pg = sem.pg_empty(cls)
    deg = [0] * ntot
    for e in edges:
        for x in e:
            deg[x] += 1
    for i in range(ntot):
        if deg[i] <= 1 and rng.random() < 0.6:
            z = rng.choice(alphabet[-2:] if len(alphabet) > 2 else alphabet)
        else:
            z = rng.choice(alphabet)
        at = {"atom_type": z}
        if attrs and rng.random() < 0.5:
            at["label"] = rng.choice(["x", "y", 1, 2.5, True])
        if attrs and rng.random() < 0.2:
            at["charge"] = rng.choice([-1, 0, 1])
        if attrs and rng.random() < 0.08:
            at[rng.choice(["atom", "self", "attr", "value", "atom1"])] = rng.choice(["CA", 1, None])
        pg["atoms"][ids[i]] = at
    for e in edges:
        x, y = tuple(e)
        ba: dict = {}
        if cls in REACTION and rng.random() < p_role:
            ba["reaction"] = rng.choice(ROLES)
        if attrs and rng.random() < 0.4:
            ba["bond_order"] = rng.choice([1, 2, 1.5])
        if attrs and rng.random() < 0.08:
            ba[rng.choice(["atom1", "atom2", "self", "attr", "value"])] = rng.choice(["x", 2])
        pg["bonds"][frozenset((ids[x], ids[y]))] = ba
    if cls in STEREO:
        decorate(rng, pg, p_stereo=p_stereo, p_none=p_none, p_change=p_change if cls in REACTION else 0.0, one_sided=one_sided_bond_desc, valid=rng.random() >= p_invalid)
    return pg


def _struct_nbrs(pg):
    """neighbour sets per structure: reactant (BROKEN slot), product (FORMED), ts (FLEETING)"""
    out = {}
    for slot, keep in (("BROKEN", (None, "BROKEN")), ("FORMED", (None, "FORMED")), ("FLEETING", (None, "BROKEN", "FORMED", "FLEETING"))):
        n = {a: set() for a in pg["atoms"]}
        for b, v in pg["bonds"].items():
            if v.get("reaction") in keep:
                x, y = tuple(b)
                n[x].add(y)
                n[y].add(x)
        out[slot] = n
    return out


def decorate(rng, pg, p_stereo=0.6, p_none=0.0, p_change=0.0, one_sided=0.05, valid=True):
    """random decoration with descriptors (and changes for stereo reaction graphs).
    valid=True: every descriptor only names ligands bonded to its centre in each structure
    (reactant / product / TS) where it is present; valid=False: ligands from the union of all bonds."""
    nbr = sem.pg_neighbors(pg)
    reaction = pg["cls"] in REACTION
    sn = _struct_nbrs(pg) if (reaction and valid) else None
    all_slots = [s for r in (1, 2, 3) for s in itertools.combinations(ROLES, r)]
    for a in list(pg["atoms"]):
        if rng.random() > p_stereo:
            continue
        static_ok = sn is None or (sn["BROKEN"][a] == sn["FORMED"][a] == sn["FLEETING"][a])
        if reaction and (rng.random() < p_change or not static_ok):
            slots = rng.choice(all_slots)
            v = {}
            for s in slots:
                d = _atom_desc(rng, a, sn[s][a] if sn else nbr[a], p_none)
                if d:
                    v[s] = d
            if len(v) > 1 and rng.random() < 0.3 and len({frozenset(x for x in d[1] if x is not None) for d in v.values()}) == 1:
                first = next(iter(v.values()))  # the configuration is retained: the same descriptor in several slots
                v = {s: first for s in v}
            if v:
                pg["achange"][a] = v
            if static_ok and rng.random() < 0.1:
                d = _atom_desc(rng, a, nbr[a], p_none)
                if d:
                    pg["astereo"][a] = d
        elif static_ok:
            d = _atom_desc(rng, a, nbr[a], p_none)
            if d:
                pg["astereo"][a] = d
    for b in list(pg["bonds"]):
        x, y = sorted(b, key=repr)
        if rng.random() < 0.5:
            x, y = y, x
        if rng.random() > p_stereo * 0.7:
            continue
        role = pg["bonds"][b].get("reaction")

        def mk(nx, ny):
            nx, ny = nx - {y}, ny - {x}
            if len(nx) > 2 or len(ny) > 2:
                return None
            if (not nx or not ny) and rng.random() > one_sided:
                return None
            return _bond_desc(rng, x, y, nx, ny, p_none)

        static_ok = role is None and (sn is None or all(sn["BROKEN"][e] == sn["FORMED"][e] == sn["FLEETING"][e] for e in (x, y)))
        if reaction and (rng.random() < p_change or not static_ok):
            allowed = [s for s in ROLES if s == "FLEETING" or role is None or role == s]
            slots = rng.choice([s for s in all_slots if all(q in allowed for q in s)] or [()])
            v = {}
            for s in slots:
                d = mk(sn[s][x], sn[s][y]) if sn else mk(nbr[x], nbr[y])
                if d:
                    v[s] = d
            if v:
                pg["bchange"][b] = v
        elif static_ok:
            d = mk(nbr[x], nbr[y])
            if d:
                pg["bstereo"][b] = d
    return pg


def random_bijection(rng, pg, kind=None):
    ids = list(pg["atoms"])
    kind = kind or rng.choice(["perm", "fresh", "shift", "fresh"])
    if kind == "perm":
        tgt = ids[:]
        rng.shuffle(tgt)
    elif kind == "shift":
        off = rng.choice([1, -1, 7, 1000, -1000])
        tgt = [i + off for i in ids]
    else:
        tgt = make_ids(rng, len(ids), rng.choice(["sparse", "negative", "large", "shuffled"]))
    return dict(zip(ids, tgt))


# ---------------------------------------------------------------------------
# single-feature mutations (C02 / C16); truth is never assumed from these
# ---------------------------------------------------------------------------
MUTATIONS = (
    "element",
    "move_bond",
    "add_bond",
    "remove_bond",
    "role",
    "invert",
    "swap_ligands",
    "flip_ez",
    "change_edit",
    "swap_roles",
    "desc_class",
)


def mutate(rng, pg, kind=None):
    """returns (kind, mutated copy) or None when the mutation does not apply"""
    g = sem.pg_copy(pg)
    kinds = list(MUTATIONS)
    rng.shuffle(kinds)
    if kind:
        kinds = [kind]
    nbr = sem.pg_neighbors(g)
    for k in kinds:
        if k == "element" and g["atoms"]:
            leaves = [a for a in g["atoms"] if len(nbr[a]) <= 1]
            a = rng.choice(leaves if leaves and rng.random() < 0.7 else list(g["atoms"]))
            z = g["atoms"][a]["atom_type"]
            g["atoms"][a]["atom_type"] = rng.choice([x for x in WIDE if x != z])
            return k, g
        if k == "remove_bond" and g["bonds"]:
            b = rng.choice(sorted(g["bonds"], key=sorted))
            _drop_bond(g, b)
            return k, g
        if k == "add_bond" and len(g["atoms"]) >= 2:
            for _ in range(10):
                x, y = rng.sample(sorted(g["atoms"]), 2)
                if frozenset((x, y)) not in g["bonds"]:
                    g["bonds"][frozenset((x, y))] = {}
                    return k, g
        if k == "move_bond" and g["bonds"] and len(g["atoms"]) >= 3:
            b = rng.choice(sorted(g["bonds"], key=sorted))
            x, y = tuple(b)
            for _ in range(10):
                z = rng.choice(sorted(g["atoms"]))
                if z not in b and frozenset((x, z)) not in g["bonds"]:
                    attrs = g["bonds"][b]
                    _drop_bond(g, b)
                    g["bonds"][frozenset((x, z))] = attrs
                    return k, g
        if k == "role" and g["cls"] in REACTION and g["bonds"]:
            b = rng.choice(sorted(g["bonds"], key=sorted))
            cur = g["bonds"][b].get("reaction")
            new = rng.choice([r for r in (None, *ROLES) if r != cur])
            if new is None:
                g["bonds"][b].pop("reaction")
            else:
                g["bonds"][b]["reaction"] = new
            _drop_bond_stereo_only(g, b)
            return k, g
        if k == "swap_roles" and g["cls"] in REACTION and any("reaction" in v for v in g["bonds"].values()):
            return k, sem.pg_reverse(g)
        if k == "invert":
            keys = [("astereo", a) for a, d in g["astereo"].items() if sem.CHIRAL[d[0]] and d[2] is not None]
            keys += [("bstereo", a) for a, d in g["bstereo"].items() if sem.CHIRAL[d[0]] and d[2] is not None]
            keys += [(kk, a, s) for kk in ("achange", "bchange") for a, v in g[kk].items() for s, d in v.items() if sem.CHIRAL[d[0]] and d[2] is not None]
            if keys:
                key = rng.choice(keys)
                if len(key) == 2:
                    g[key[0]][key[1]] = sem.desc_invert(g[key[0]][key[1]])
                else:
                    g[key[0]][key[1]][key[2]] = sem.desc_invert(g[key[0]][key[1]][key[2]])
                return k, g
        if k in ("swap_ligands", "flip_ez"):
            want_bond = k == "flip_ez"
            keys = [("bstereo" if want_bond else "astereo", a) for a in g["bstereo" if want_bond else "astereo"]]
            keys += [("bchange" if want_bond else "achange", a, s) for a, v in g["bchange" if want_bond else "achange"].items() for s in v]
            if keys:
                key = rng.choice(keys)
                d = g[key[0]][key[1]] if len(key) == 2 else g[key[0]][key[1]][key[2]]
                atoms = list(d[1])
                if want_bond:
                    i, j = (0, 1) if rng.random() < 0.5 else (4, 5)
                else:
                    i, j = rng.sample(range(1, len(atoms)), 2)
                atoms[i], atoms[j] = atoms[j], atoms[i]
                nd = (d[0], tuple(atoms), d[2])
                if len(key) == 2:
                    g[key[0]][key[1]] = nd
                else:
                    g[key[0]][key[1]][key[2]] = nd
                return k, g
        if k == "desc_class":
            # same atoms in the same order, another descriptor class of the same size (Tetrahedral <-> SquarePlanar,
            # PlanarBond <-> AtropBond - the latter two share their permutation group): only the class tells them apart
            other = {"Tetrahedral": "SquarePlanar", "SquarePlanar": "Tetrahedral", "PlanarBond": "AtropBond", "AtropBond": "PlanarBond"}
            keys = [(kk, a) for kk in ("astereo", "bstereo") for a, d in g[kk].items() if d[0] in other and d[2] is not None]
            keys += [(kk, a, s_) for kk in ("achange", "bchange") for a, v in g[kk].items() for s_, d in v.items() if d[0] in other and d[2] is not None]
            if keys:
                key = rng.choice(keys)
                d = g[key[0]][key[1]] if len(key) == 2 else g[key[0]][key[1]][key[2]]
                nc = other[d[0]]
                nd = (nc, tuple(d[1]), rng.choice([1, -1]) if sem.CHIRAL[nc] else 0)
                if len(key) == 2:
                    g[key[0]][key[1]] = nd
                else:
                    g[key[0]][key[1]][key[2]] = nd
                return k, g
        if k == "change_edit" and g["cls"] == "StereoCondensedReactionGraph":
            keys = [(kk, a) for kk in ("achange", "bchange") for a in g[kk]]
            if keys:
                kk, a = rng.choice(keys)
                v = g[kk][a]
                op = rng.choice(["drop_slot", "move_slot", "to_static"])
                s = rng.choice(sorted(v))
                if op == "drop_slot":
                    del v[s]
                    if not v:
                        del g[kk][a]
                    return k, g
                if op == "move_slot":
                    free = [r for r in ROLES if r not in v]
                    if kk == "bchange":
                        role = g["bonds"][a].get("reaction")
                        free = [r for r in free if r == "FLEETING" or role is None or role == r]
                    if free:
                        v[rng.choice(free)] = v.pop(s)
                        return k, g
                if op == "to_static":
                    st = "astereo" if kk == "achange" else "bstereo"
                    if a not in g[st]:
                        g[st][a] = v.pop(s)
                        if not v:
                            del g[kk][a]
                        return k, g
    return None


def _drop_bond_stereo_only(g, b):
    # keep bond-change slots consistent with the role (reactant()/product() validity)
    role = g["bonds"][b].get("reaction")
    v = g["bchange"].get(b)
    if v:
        for s in list(v):
            if not (s == "FLEETING" or role is None or role == s):
                del v[s]
        if not v:
            del g["bchange"][b]


def _drop_bond(g, b):
    """remove a bond and every descriptor that needs it (keeps the PG stereo-valid)"""
    g["bonds"].pop(b)
    g["bstereo"].pop(b, None)
    g["bchange"].pop(b, None)
    x, y = tuple(b)
    for key in ("astereo",):
        for a in list(g[key]):
            d = g[key][a]
            if a in b and (x in d[1] and y in d[1]):
                del g[key][a]
    for a in list(g["achange"]):
        if a in b:
            v = g["achange"][a]
            for s in list(v):
                if x in v[s][1] and y in v[s][1]:
                    del v[s]
            if not v:
                del g["achange"][a]
    for key in ("bstereo",):
        for bb in list(g[key]):
            d = g[key][bb]
            if x in d[1] and y in d[1] and (x in bb or y in bb):
                del g[key][bb]
    for bb in list(g["bchange"]):
        v = g["bchange"][bb]
        for s in list(v):
            if x in v[s][1] and y in v[s][1] and (x in bb or y in bb):
                del v[s]
        if not v:
            del g["bchange"][bb]


# ---------------------------------------------------------------------------
# symmetric skeletons (large automorphism groups) for C05
# ---------------------------------------------------------------------------
def symmetric_pg(rng, name=None, cls="StereoMolGraph"):
    name = name or rng.choice(["neopentane", "cubane", "benzene", "sf6", "ethane", "biphenyl_core", "cyclohexane", "cyclopropane", "methane", "c2h4", "star5", "two_methane"])
    pg = sem.pg_empty(cls)
    A = pg["atoms"]
    B = pg["bonds"]

    def atom(i, z):
        A[i] = {"atom_type": z}

    def bond(i, j):
        B[frozenset((i, j))] = {}

    nid = itertools.count()
    if name == "methane":
        c = next(nid); atom(c, 6)
        for _ in range(4):
            h = next(nid); atom(h, 1); bond(c, h)
    elif name == "two_methane":
        for _ in range(2):
            c = next(nid); atom(c, 6)
            for _ in range(4):
                h = next(nid); atom(h, 1); bond(c, h)
    elif name == "ethane":
        c1, c2 = next(nid), next(nid); atom(c1, 6); atom(c2, 6); bond(c1, c2)
        for c in (c1, c2):
            for _ in range(3):
                h = next(nid); atom(h, 1); bond(c, h)
    elif name == "c2h4":
        c1, c2 = next(nid), next(nid); atom(c1, 6); atom(c2, 6); bond(c1, c2)
        for c in (c1, c2):
            for _ in range(2):
                h = next(nid); atom(h, 1); bond(c, h)
    elif name == "neopentane":
        c = next(nid); atom(c, 6)
        for _ in range(4):
            m = next(nid); atom(m, 6); bond(c, m)
            for _ in range(3):
                h = next(nid); atom(h, 1); bond(m, h)
    elif name == "sf6":
        s = next(nid); atom(s, 16)
        for _ in range(6):
            f = next(nid); atom(f, 9); bond(s, f)
    elif name == "star5":
        p = next(nid); atom(p, 15)
        for _ in range(5):
            f = next(nid); atom(f, 17); bond(p, f)
    elif name in ("benzene", "cyclohexane", "cyclopropane"):
        n = {"benzene": 6, "cyclohexane": 6, "cyclopropane": 3}[name]
        ring = [next(nid) for _ in range(n)]
        for r in ring:
            atom(r, 6)
        for i in range(n):
            bond(ring[i], ring[(i + 1) % n])
        for r in ring:
            for _ in range(1 if name == "benzene" else 2):
                h = next(nid); atom(h, 1); bond(r, h)
    elif name == "cubane":
        v = [next(nid) for _ in range(8)]
        for x in v:
            atom(x, 6)
        for i in range(8):
            for j in range(i + 1, 8):
                if bin(i ^ j).count("1") == 1:
                    bond(v[i], v[j])
        for x in v:
            h = next(nid); atom(h, 1); bond(x, h)
    elif name == "biphenyl_core":
        c1, c2 = next(nid), next(nid); atom(c1, 6); atom(c2, 6); bond(c1, c2)
        for c in (c1, c2):
            for _ in range(2):
                x = next(nid); atom(x, 6); bond(c, x)
                for _ in range(3):
                    h = next(nid); atom(h, 1); bond(x, h)
    pg["name"] = name
    return pg


# ---------------------------------------------------------------------------
# 1-WL-hard graphs: disconnected unions of regular components that colour refinement cannot tell
# apart although they are not isomorphic (rings of different size, K4 / prism / cube / K3,3 / Petersen)
# ---------------------------------------------------------------------------
def _regular_component(kind):
    """returns (n_atoms, edges) of a regular graph; all atoms of one element"""
    if kind.startswith("ring"):
        n = int(kind[4:])
        return n, [(i, (i + 1) % n) for i in range(n)]
    if kind == "k4":
        return 4, [(i, j) for i in range(4) for j in range(i + 1, 4)]
    if kind == "prism":
        return 6, [(0, 1), (1, 2), (2, 0), (3, 4), (4, 5), (5, 3), (0, 3), (1, 4), (2, 5)]
    if kind == "k33":
        return 6, [(i, j) for i in range(3) for j in range(3, 6)]
    if kind == "cube":
        return 8, [(i, j) for i in range(8) for j in range(i + 1, 8) if bin(i ^ j).count("1") == 1]
    if kind == "petersen":
        e = [(i, (i + 1) % 5) for i in range(5)] + [(5 + i, 5 + (i + 2) % 5) for i in range(5)] + [(i, i + 5) for i in range(5)]
        return 10, e
    raise ValueError(kind)


WL_GROUPS = [
    # component lists with the same number of atoms and the same degree: indistinguishable for 1-WL
    [["ring3", "ring5"], ["ring4", "ring4"], ["ring8"]],
    [["ring3", "ring3"], ["ring6"]],
    [["ring3", "ring4"], ["ring7"]],
    [["ring3", "ring3", "ring6"], ["ring4", "ring4", "ring4"], ["ring6", "ring6"], ["ring3", "ring4", "ring5"], ["ring12"]],
    [["prism"], ["k33"]],
    [["k4", "k4"], ["cube"]],
    [["prism", "k4"], ["petersen"], ["k33", "k4"]],
    [["k4", "prism", "cube"], ["k4", "k33", "cube"]],
]


def wl_hard_pg(rng, cls, comps=None, hydrogens=None, decorate_p=0.5, z=None):
    """disconnected union of regular components of one element (optionally CH2-like with hydrogens)"""
    if comps is None:
        comps = rng.choice(rng.choice(WL_GROUPS))
    if hydrogens is None:
        hydrogens = rng.choice([0, 0, 2]) if all(c.startswith("ring") for c in comps) else 0
    pg = sem.pg_empty(cls)
    nid = 0
    z = z or rng.choice([6, 6, 14, 7])
    for kind in comps:
        n, edges = _regular_component(kind)
        base = nid
        for i in range(n):
            pg["atoms"][base + i] = {"atom_type": z}
        nid += n
        for a, b in edges:
            pg["bonds"][frozenset((base + a, base + b))] = {}
        for i in range(n):
            for _ in range(hydrogens):
                pg["atoms"][nid] = {"atom_type": 1}
                pg["bonds"][frozenset((base + i, nid))] = {}
                nid += 1
    if cls in REACTION:
        for b in rng.sample(sorted(pg["bonds"], key=sorted), rng.randint(0, 3)):
            pg["bonds"][b]["reaction"] = rng.choice(ROLES)
    if cls in STEREO and rng.random() < decorate_p:
        decorate(rng, pg, p_stereo=rng.choice([0.3, 1.0]), p_change=0.3 if cls in REACTION else 0.0)
    return pg


# ---------------------------------------------------------------------------------------------------------------
# large inputs: long chains and macrocycles (colour refinement needs many rounds before a distant feature is seen),
# big random graphs, and molecule-sized graphs taken from RDKit (drug-like, polycyclic, many stereo elements)
DRUGLIKE = [
    "CC(C)Cc1ccc(cc1)[C@@H](C)C(=O)O",
    "C[C@H]1CC[C@@H](C(C)C)[C@H](O)C1",
    "CN1CC[C@]23c4c5ccc(O)c4O[C@H]2[C@@H](O)C=C[C@H]3[C@H]1C5",
    "C[C@]12CC[C@H]3[C@@H](CCc4cc(O)ccc34)[C@@H]1CC[C@@H]2O",
    "CC(=O)O[C@H]1C[C@@H]2CC[C@@H]3[C@H](CC[C@@]4(C)[C@H]3CC[C@@H]4C(C)=O)[C@@]2(C)CC1",
    "O=C(O)[C@@H]1N2C(=O)[C@@H](NC(=O)Cc3ccccc3)[C@H]2SC1(C)C",
    "C/C=C/C=C/C(=O)N[C@@H](Cc1ccccc1)C(=O)OC",
    "OC[C@H]1O[C@@H](O[C@H]2[C@H](O)[C@@H](O)[C@H](O)O[C@@H]2CO)[C@H](O)[C@@H](O)[C@@H]1O",
    "CCCCCCCCCCCCCCCC(=O)OC[C@H](O)COP(=O)(O)OCC[N+](C)(C)C",
    "c1ccc2c(c1)ccc1ccc3ccc4ccccc4c3c12",
    "C1CCCCCCCCCCCCCCC1",
    "CCCCCCCCCCCCCCCCCCCCN",
    "F/C=C/CCCCCCCCCC/C=C\\F",
    "C[C@H](N)CCCCCCCCCC[C@@H](C)N",
    "C12C3C4C1C5C2C3C45",
    "C1CC2CCC1CC2",
    "CC1=C(C(=O)C[C@@H]1OC(=O)[C@@H]1[C@H](C1(C)C)C=C(C)C)CC=C",
    "N[Pt@SP1](Cl)(Cl)N",
    "Cl[Co@OH3](N)(N)(N)(Br)F",
]


def _chain_or_ring_pg(rng, cls, ring):
    n = rng.randint(12, 40) if ring else rng.randint(16, 60)
    pg = sem.pg_empty(cls)
    ids = make_ids(rng, n + 6)
    for i in range(n):
        pg["atoms"][ids[i]] = {"atom_type": 6}
    for i in range(n - 1 + (1 if ring else 0)):
        pg["bonds"][frozenset((ids[i], ids[(i + 1) % n]))] = {}
    # a few substituents at random positions (far apart features)
    k = n
    for _ in range(rng.randint(1, 4)):
        pos = rng.randrange(n)
        pg["atoms"][ids[k]] = {"atom_type": rng.choice([8, 7, 9, 1])}
        pg["bonds"][frozenset((ids[pos], ids[k]))] = {}
        k += 1
    if cls in REACTION:
        for b in rng.sample(sorted(pg["bonds"], key=sorted), rng.randint(0, 3)):
            pg["bonds"][b]["reaction"] = rng.choice(ROLES)
    if cls in STEREO:
        decorate(rng, pg, p_stereo=rng.choice([0.05, 0.2]), p_none=0.3, p_change=0.3 if cls in REACTION else 0.0, valid=True)
    return pg


def _molecule_pg(rng, cls):
    """an RDKit molecule (explicit hydrogens) imported by the library and snapshotted; only used as an input source"""
    from rdkit import Chem

    from .snapshot import classes, snap

    smi = rng.choice(DRUGLIKE)
    m = Chem.AddHs(Chem.MolFromSmiles(smi))
    g = classes()["StereoMolGraph"].from_rdmol(m)
    pg = snap(g)
    pg["cls"] = cls
    for a in pg["atoms"].values():
        for k in [k for k in a if k != "atom_type"]:
            del a[k]
    for b in pg["bonds"].values():
        b.clear()
    if cls not in STEREO:
        pg["astereo"], pg["bstereo"] = {}, {}
    if cls in REACTION:
        plain = [b for b in sorted(pg["bonds"], key=sorted) if not any(b & frozenset(d[1]) - {None} for d in list(pg["astereo"].values()) + list(pg["bstereo"].values()))]
        for b in rng.sample(plain, min(len(plain), rng.randint(0, 3))):
            pg["bonds"][b]["reaction"] = rng.choice(ROLES)
    return pg


def large_pg(rng, cls, kind=None):
    kind = kind or rng.choice(["random", "chain", "ring", "molecule", "molecule"])
    if kind == "random":
        return random_pg(rng, cls, n_range=(30, 70), alphabet=rng.choice([TINY, SMALL]), p_stereo=0.4, p_none=0.1, max_deg=4, allow_isolated=False, p_hub=0.3)
    if kind == "chain":
        return _chain_or_ring_pg(rng, cls, ring=False)
    if kind == "ring":
        return _chain_or_ring_pg(rng, cls, ring=True)
    return _molecule_pg(rng, cls)


SCALE_SIZES = {"quick": (300, 1300), "thorough": (200, 300, 700, 1300, 2600)}


def scale_pg(rng, cls, n):
    """a very long chain (n backbone atoms; depth-first traversals get n deep, index arithmetic sees n*n) with a few
    substituents, stereo centres and bond roles, plus a separate three-atom component"""
    pg = sem.pg_empty(cls)
    ids = make_ids(rng, n + 40, rng.choice(["range", "shuffled", "large"]))
    for i in range(n):
        pg["atoms"][ids[i]] = {"atom_type": 8 if i % 11 == 5 else 6}
    for i in range(n - 1):
        pg["bonds"][frozenset((ids[i], ids[i + 1]))] = {}
    k = n
    centres = []
    for _ in range(8):  # CHXY centres along the chain
        pos = rng.randrange(1, n - 1)
        if any(abs(pos - c) < 3 for c in centres):
            continue
        centres.append(pos)
        for z in (1, 9):
            pg["atoms"][ids[k]] = {"atom_type": z}
            pg["bonds"][frozenset((ids[pos], ids[k]))] = {}
            k += 1
        if cls in STEREO:
            pg["astereo"][ids[pos]] = ("Tetrahedral", (ids[pos], ids[pos - 1], ids[pos + 1], ids[k - 2], ids[k - 1]), rng.choice((1, -1)))
    if cls in STEREO:
        # double-bond-like units near the END of the chain (descriptor atoms at large positions in every index array)
        for pos in (n - 6, n - 12):
            if pos - 1 > 0 and not any(abs(pos - c) < 3 or abs(pos + 1 - c) < 3 for c in centres):
                x, y = ids[pos], ids[pos + 1]
                hx, hy = ids[k], ids[k + 1]
                for a_, h_ in ((x, hx), (y, hy)):
                    pg["atoms"][h_] = {"atom_type": 9 if a_ == x else 1}
                    pg["bonds"][frozenset((a_, h_))] = {}
                k += 2
                pg["bstereo"][frozenset((x, y))] = ("PlanarBond", (ids[pos - 1], hx, x, y, ids[pos + 2], hy), 0)
    # separate small component
    o, h1, h2 = ids[k], ids[k + 1], ids[k + 2]
    pg["atoms"][o] = {"atom_type": 8}
    pg["atoms"][h1] = {"atom_type": 1}
    pg["atoms"][h2] = {"atom_type": 1}
    pg["bonds"][frozenset((o, h1))] = {}
    pg["bonds"][frozenset((o, h2))] = {}
    if cls in REACTION:
        busy = {ids[c] for c in centres} | {x for d in pg["bstereo"].values() for x in d[1]}
        free = [b for b in sorted(pg["bonds"], key=sorted) if not (b & busy)]
        for b in rng.sample(free, 4):
            pg["bonds"][b]["reaction"] = rng.choice(ROLES)
    return pg


def random_regular_pg(rng, cls, n=None, d=None, z=6):
    """random d-regular simple graph on n atoms of one element (pairing model with restarts): colour refinement
    cannot split anything, every decision is left to the search itself"""
    d = d or rng.choice([3, 3, 4])
    n = n or rng.choice([8, 10, 12, 12, 14, 16])
    if (n * d) % 2:
        n += 1
    for _ in range(200):
        stubs = [v for v in range(n) for _ in range(d)]
        rng.shuffle(stubs)
        edges = set()
        ok = True
        for i in range(0, len(stubs), 2):
            u, v = stubs[i], stubs[i + 1]
            e = frozenset((u, v))
            if u == v or e in edges:
                ok = False
                break
            edges.add(e)
        if ok:
            break
    else:
        return None
    ids = make_ids(rng, n)
    pg = sem.pg_empty(cls)
    for i in range(n):
        pg["atoms"][ids[i]] = {"atom_type": z}
    for e in edges:
        u, v = tuple(e)
        pg["bonds"][frozenset((ids[u], ids[v]))] = {}
    return pg


def two_switch(rng, pg):
    """exchange the partners of two bonds a-b, c-d -> a-d, c-b (degrees and labels unchanged); None if impossible"""
    bonds = sorted(pg["bonds"], key=sorted)
    for _ in range(50):
        b1, b2 = rng.sample(bonds, 2)
        if b1 & b2:
            continue
        a, b = sorted(b1)
        c, d = sorted(b2)
        if rng.random() < 0.5:
            c, d = d, c
        n1, n2 = frozenset((a, d)), frozenset((c, b))
        if n1 in pg["bonds"] or n2 in pg["bonds"]:
            continue
        g = sem.pg_copy(pg)
        del g["bonds"][b1], g["bonds"][b2]
        g["bonds"][n1] = {}
        g["bonds"][n2] = {}
        return g
    return None


def scale_specs(ctx, rng, reps=2):
    """(index, size, class) of the very-long-chain cases this shard has to run (spread over the shards)"""
    from .snapshot import CLASS_NAMES

    k = 0
    for _ in range(reps):
        for nsz in SCALE_SIZES[ctx.tier]:
            for cls in CLASS_NAMES:
                seed = rng.randrange(1 << 30)  # drawn on every shard to keep the streams aligned
                if k % ctx.nshards == ctx.shard:
                    yield k, nsz, cls, seed
                k += 1


def cis_trans_mixture_pg(rng, cls):
    """disconnected, achiral, fully specified: a small component with a rare element + cis- and trans-1,3- (or 1,4-)
    disubstituted rings. The two ring isomers get identical refined colours although their atoms are not exchangeable,
    so a search for the mapping onto the mirror image has to try (and back out of) wrong roots in a later component."""
    pg = sem.pg_empty(cls)
    nxt = [0]

    def new(z):
        a = nxt[0]
        nxt[0] += 1
        pg["atoms"][a] = {"atom_type": z}
        return a

    def bond(a, b):
        pg["bonds"][frozenset((a, b))] = {}

    size = rng.choice([4, 6])
    x_el = rng.choice([9, 17])
    for flip in (False, True):
        ring = [new(6) for _ in range(size)]
        for i in range(size):
            bond(ring[i], ring[(i + 1) % size])
        subst = (0, size // 2)
        for i, c in enumerate(ring):
            h = new(1)
            bond(c, h)
            o = new(x_el if i in subst else 1)
            bond(c, o)
            if i in subst:
                par = 1 if (i == 0 or not flip) else -1
                # same spatial sense written relative to the ring direction: (c; prev, next, H, X)
                pg["astereo"][c] = ("Tetrahedral", (c, ring[(i - 1) % size], ring[(i + 1) % size], h, o), par)
    small = rng.choice(["water", "ammonia", "hf"])
    if small == "water":
        o = new(8)
        bond(o, new(1))
        bond(o, new(1))
    elif small == "ammonia":
        n = new(7)
        for _ in range(3):
            bond(n, new(1))
    else:
        bond(new(9 if x_el != 9 else 17), new(1))
    ids = make_ids(rng, len(pg["atoms"]))
    order = list(pg["atoms"])
    rng.shuffle(order)
    return sem.pg_relabel(pg, dict(zip(order, ids)))


def high_coordination_pg(rng, cls, k):
    """a centre with k = 7..9 ligands of several elements and no descriptor (colour refinement of the stereo classes
    walks over all k! neighbour orders of such an atom - seconds per hash for k = 9), a few ligands carry hydrogens"""
    pg = sem.pg_empty(cls)
    ids = make_ids(rng, k + 8)
    c = ids[0]
    pg["atoms"][c] = {"atom_type": rng.choice([26, 40, 57, 92])}
    lig = ids[1 : k + 1]
    for i, a in enumerate(lig):
        pg["atoms"][a] = {"atom_type": rng.choice([6, 6, 7, 8, 17])}
        pg["bonds"][frozenset((c, a))] = {}
    nxt = k + 1
    for a in rng.sample(lig, 3):
        h = ids[nxt]
        nxt += 1
        pg["atoms"][h] = {"atom_type": 1}
        pg["bonds"][frozenset((a, h))] = {}
    if cls in REACTION:
        b = rng.choice(sorted(pg["bonds"], key=sorted))
        pg["bonds"][b]["reaction"] = rng.choice(ROLES)
    return pg


def high_coordination_specs(ctx, rng):
    from .snapshot import CLASS_NAMES

    plan = [7] * 8 + [8] * 8 + [9] * 4 if ctx.tier == "quick" else [7] * 32 + [8] * 32 + [9] * 16
    for k, deg in enumerate(plan):
        seed = rng.randrange(1 << 30)
        if k % ctx.nshards == ctx.shard:
            yield k, deg, CLASS_NAMES[k % 4], seed


def ligand_exchange_pair(rng, cls, kmax=8):
    """two graphs with the same atoms: two centres of one element with k1, k2 one-atom ligands; in the second graph a
    ligand of the first centre and a ligand of another element of the second centre have changed places. Every ligand
    still sees a centre of the same element - only the neighbour MULTISETS of the centres differ."""
    for _ in range(20):
        k1, k2 = rng.randint(2, kmax), rng.randint(2, kmax)
        els = rng.sample([9, 17, 35, 8, 1], 2)
        a = sem.pg_empty(cls)
        ids = make_ids(rng, k1 + k2 + 2)
        c1, c2 = ids[0], ids[1]
        z = rng.choice([40, 26, 14, 15, 6])
        a["atoms"][c1] = {"atom_type": z}
        a["atoms"][c2] = {"atom_type": z}
        l1 = ids[2 : 2 + k1]
        l2 = ids[2 + k1 :]
        for x in l1:
            a["atoms"][x] = {"atom_type": rng.choice(els)}
            a["bonds"][frozenset((c1, x))] = {}
        for x in l2:
            a["atoms"][x] = {"atom_type": rng.choice(els)}
            a["bonds"][frozenset((c2, x))] = {}
        p1 = [x for x in l1 if a["atoms"][x]["atom_type"] == els[0]]
        p2 = [x for x in l2 if a["atoms"][x]["atom_type"] == els[1]]
        if not p1 or not p2:
            continue
        x, y = rng.choice(p1), rng.choice(p2)
        b = sem.pg_copy(a)
        del b["bonds"][frozenset((c1, x))], b["bonds"][frozenset((c2, y))]
        b["bonds"][frozenset((c1, y))] = {}
        b["bonds"][frozenset((c2, x))] = {}
        return a, sem.pg_relabel(b, random_bijection(rng, b))
    return None


def twin_pair(rng, cls):
    """(a, b): a has two ADJACENT atoms with the same closed neighbourhood (the bridgeheads of a propellane, or a
    diatomic padded with placeholders) that both carry a descriptor over the SAME atom set; with unspecified parity
    the two descriptors are equal and hash alike although they are two descriptors. b is the same skeleton under other
    ids with one of the two descriptors removed, specified, or unchanged."""
    k = rng.choice([0, 2, 3, 3, 4, 5])
    pg = sem.pg_empty(cls)
    ids = make_ids(rng, k + 2 + 6)
    t1, t2 = ids[0], ids[1]
    z = rng.choice([6, 14, 15])
    pg["atoms"][t1] = {"atom_type": z}
    pg["atoms"][t2] = {"atom_type": z}
    pg["bonds"][frozenset((t1, t2))] = {}
    common = ids[2 : 2 + k]
    for c in common:
        pg["atoms"][c] = {"atom_type": rng.choice([6, 6, 8])}
        pg["bonds"][frozenset((t1, c))] = {}
        pg["bonds"][frozenset((t2, c))] = {}
    nxt = 2 + k
    for c in common[:2]:
        if rng.random() < 0.5:
            pg["atoms"][ids[nxt]] = {"atom_type": 1}
            pg["bonds"][frozenset((c, ids[nxt]))] = {}
            nxt += 1
    n_lig = k + 1
    klass = {1: "Tetrahedral", 3: "Tetrahedral", 4: "Tetrahedral", 5: "TrigonalBipyramidal", 6: "Octahedral"}[n_lig]
    pad = {1: 3, 3: 1}.get(n_lig, 0)

    def desc(centre, other, parity):
        lig = [other, *common] + [None] * pad
        rng.shuffle(lig)
        return (klass, (centre, *lig), parity)

    par = rng.choice([None, None, None, 1])
    pg["astereo"][t1] = desc(t1, t2, par)
    pg["astereo"][t2] = desc(t2, t1, rng.choice([None, None, par]))
    other = sem.pg_copy(pg)
    how = rng.random()
    if how < 0.45:
        del other["astereo"][rng.choice([t1, t2])]
    elif how < 0.7:
        t = rng.choice([t1, t2])
        d = other["astereo"][t]
        other["astereo"][t] = (d[0], d[1], rng.choice([1, -1]) if d[2] is None else None)
    return pg, sem.pg_relabel(other, random_bijection(rng, other))


def bond_change_only_pair(rng):
    """(a, b, same): a StereoCondensedReactionGraph WITHOUT changed bonds and WITHOUT atom stereo changes whose only
    stereo element is an AtropBond / PlanarBond inside a bond stereo change; b is a relabelled copy (same=True) or the
    graph with that descriptor inverted / its two ligands on one end exchanged (same decided by the caller's oracle)"""
    cls = "StereoCondensedReactionGraph"
    pg = sem.pg_empty(cls)
    ids = make_ids(rng, 6 + 4)
    x, y = ids[0], ids[1]
    pg["atoms"][x] = {"atom_type": rng.choice([6, 14])}
    pg["atoms"][y] = {"atom_type": rng.choice([6, 14, 7])}
    pg["bonds"][frozenset((x, y))] = {}
    els = rng.sample([1, 9, 17, 35, 8], 4) if rng.random() < 0.6 else [rng.choice([9, 17])] * 2 + [rng.choice([1, 35])] * 2
    lig = ids[2:6]
    for a, z, c in zip(lig, els, (x, x, y, y)):
        pg["atoms"][a] = {"atom_type": z}
        pg["bonds"][frozenset((c, a))] = {}
    klass = "AtropBond" if rng.random() < 0.6 else "PlanarBond"
    par = rng.choice((1, -1)) if klass == "AtropBond" else 0
    d = (klass, (lig[0], lig[1], x, y, lig[2], lig[3]), par)
    slots = rng.choice([("BROKEN",), ("FORMED",), ("FLEETING",), ("BROKEN", "FORMED")])
    pg["bchange"][frozenset((x, y))] = {s_: d for s_ in slots}
    other = sem.pg_copy(pg)
    how = rng.random()
    if how < 0.6:
        d2 = (klass, (lig[1], lig[0], x, y, lig[2], lig[3]), par) if klass == "PlanarBond" or rng.random() < 0.5 else (klass, d[1], -par)
        s_ = rng.choice(slots)
        other["bchange"][frozenset((x, y))][s_] = d2
    return pg, sem.pg_relabel(other, random_bijection(rng, other))


def stale_ligand_pg(rng, cls):
    """a centre whose descriptor still names a ligand it is no longer bonded to (remove_bond keeps descriptors), where
    that ligand has a twin: both are leaves of one hub atom, so exchanging them is an automorphism of the bonds but
    not of the descriptor's atom set. 70 % of the descriptors are unspecified."""
    pg = sem.pg_empty(cls)
    ids = make_ids(rng, 8)
    c, l1, l2, h, l4, x = ids[:6]
    e_leaf = rng.choice([17, 9, 1])
    for a, z in ((c, 6), (l1, rng.choice([1, 9])), (l2, rng.choice([1, 9, 35])), (h, rng.choice([15, 14, 7])), (l4, e_leaf), (x, e_leaf)):
        pg["atoms"][a] = {"atom_type": z}
    for u, v in ((c, l1), (c, l2), (c, h), (h, l4), (h, x)):
        pg["bonds"][frozenset((u, v))] = {}
    if rng.random() < 0.5:
        pg["atoms"][ids[6]] = {"atom_type": 8}
        pg["bonds"][frozenset((h, ids[6]))] = {}
    lig = [l1, l2, h, l4]
    rng.shuffle(lig)
    d = ("Tetrahedral", (c, *lig), None if rng.random() < 0.7 else rng.choice((1, -1)))
    if cls == "StereoCondensedReactionGraph" and rng.random() < 0.4:
        pg["achange"][c] = {rng.choice(ROLES): d}
    else:
        pg["astereo"][c] = d
    return pg


def static_under_change_pair(rng):
    """(a, b): a StereoCondensedReactionGraph in which one centre (atom or bond) carries BOTH a static descriptor and a stereo
    change with all three entries (so the static descriptor is overridden in reactant, product and transition structure -
    the state left behind when a stereo change is added to an imported graph without deleting the old descriptor);
    b differs from a in nothing but that static descriptor (inverted, re-spelled inverted, or removed) - or is a renaming"""
    cls = "StereoCondensedReactionGraph"
    pg = sem.pg_empty(cls)
    ids = make_ids(rng, 8)
    x, y = ids[0], ids[1]
    pg["atoms"][x] = {"atom_type": 6}
    pg["atoms"][y] = {"atom_type": rng.choice([6, 14])}
    pg["bonds"][frozenset((x, y))] = {}
    atom_centre = rng.random() < 0.6
    if atom_centre:
        lig = ids[2:5]
        for a, z in zip(lig, rng.sample([1, 9, 17, 35, 53], 3)):
            pg["atoms"][a] = {"atom_type": z}
            pg["bonds"][frozenset((x, a))] = {}
        atoms = (x, y, *lig)
        key, kstat, kchg, klass = x, "astereo", "achange", "Tetrahedral"
    else:
        lig = ids[2:6]
        for a, z, c in zip(lig, rng.sample([1, 9, 17, 35, 8], 4), (x, x, y, y)):
            pg["atoms"][a] = {"atom_type": z}
            pg["bonds"][frozenset((c, a))] = {}
        atoms = (lig[0], lig[1], x, y, lig[2], lig[3])
        key, kstat, kchg, klass = frozenset((x, y)), "bstereo", "bchange", "AtropBond"
    if rng.random() < 0.5:  # some spectator structure
        pg["atoms"][ids[6]] = {"atom_type": 8}
        pg["atoms"][ids[7]] = {"atom_type": 1}
        pg["bonds"][frozenset((ids[6], ids[7]))] = {}
    par = rng.choice((1, -1))
    pg[kstat][key] = (klass, atoms, par)
    pg[kchg][key] = {s_: (klass, atoms, rng.choice((1, -1))) for s_ in ROLES}
    other = sem.pg_copy(pg)
    how = rng.random()
    if how < 0.5:
        other[kstat][key] = (klass, atoms, -par)
    elif how < 0.7:
        del other[kstat][key]
    return pg, sem.pg_relabel(other, random_bijection(rng, other))


M61 = 2**61 - 1


def _colliding_ids(rng):
    """two different ids with the same Python hash"""
    if rng.random() < 0.6:
        return -1, -2
    x = rng.randrange(3, 10**6)
    return x, x + M61


def substitution_pg(rng):
    """StereoCondensedReactionGraph of a substitution at one centre: the leaving group and the incoming group carry
    ids with colliding hashes, the BROKEN and FORMED descriptors differ in nothing but that id"""
    cls = "StereoCondensedReactionGraph"
    pg = sem.pg_empty(cls)
    L, N = _colliding_ids(rng)
    c, a, b, d = rng.sample([i for i in range(3, 60) if i not in (L, N)], 4)
    for x, z in ((c, 6), (a, 1), (b, 9), (d, 17), (L, 35), (N, 53)):
        pg["atoms"][x] = {"atom_type": z}
    for x in (a, b, d):
        pg["bonds"][frozenset((c, x))] = {}
    pg["bonds"][frozenset((c, L))] = {"reaction": "BROKEN"}
    pg["bonds"][frozenset((c, N))] = {"reaction": "FORMED"}
    p = rng.choice((1, -1))
    lig = [a, b, d]
    rng.shuffle(lig)
    k = rng.randrange(4)
    t1 = lig[:k] + [L] + lig[k:]
    t2 = lig[:k] + [N] + lig[k:]
    pg["achange"][c] = {"BROKEN": ("Tetrahedral", (c, *t1), p), "FORMED": ("Tetrahedral", (c, *t2), rng.choice((p, -p)))}
    return pg


def cis_trans_pair_colliding(rng, cls):
    """(cis, trans) 1,3-disubstituted four-membered rings (or a relabelled copy instead of trans): the two ring
    neighbours of the centre whose parity differs carry ids with colliding hashes"""
    i1, i2 = _colliding_ids(rng)
    pool = [i for i in range(3, 80) if i not in (i1, i2)]
    ids = rng.sample(pool, 10)
    c0, c2 = ids[0], ids[1]
    ring = [c0, i1, c2, i2]
    pg = sem.pg_empty(cls)
    for x in ring:
        pg["atoms"][x] = {"atom_type": 6}
    for k in range(4):
        pg["bonds"][frozenset((ring[k], ring[(k + 1) % 4]))] = {}
    sub = iter(ids[2:])
    for k, x in enumerate(ring):
        h, o = next(sub), next(sub)
        pg["atoms"][h] = {"atom_type": 1}
        pg["atoms"][o] = {"atom_type": 9 if k % 2 == 0 else 1}
        pg["bonds"][frozenset((x, h))] = {}
        pg["bonds"][frozenset((x, o))] = {}
        if k % 2 == 0:
            pg["astereo"][x] = ("Tetrahedral", (x, ring[(k - 1) % 4], ring[(k + 1) % 4], h, o), 1)
    other = sem.pg_copy(pg)
    d = other["astereo"][c0]
    if rng.random() < 0.7:
        other["astereo"][c0] = (d[0], d[1], -1)
    return pg, other
