"""Independent semantics kernel.

Nothing in this module imports an algorithm of the repository.  The meaning of
a stereodescriptor is derived from geometry: for every permutation of the
ligand positions of an idealised coordination figure a Kabsch fit decides
whether a proper rotation (det=+1) and/or an improper orthogonal map (det=-1)
carries the figure onto itself.  Descriptors are plain tuples
``(class_name, atoms, parity)``.
"""
from __future__ import annotations

import itertools
import math
from functools import lru_cache

import numpy as np

# ---------------------------------------------------------------------------
# idealised figures: coordinates per descriptor position
# ---------------------------------------------------------------------------
_s = 1.0 / math.sqrt(3.0)
_c30 = math.cos(math.radians(30))
FIGURES: dict[str, np.ndarray] = {
    # 0 = centre, 1..4 vertices of a regular tetrahedron
    "Tetrahedral": np.array(
        [[0, 0, 0], [_s, _s, _s], [_s, -_s, -_s], [-_s, _s, -_s], [-_s, -_s, _s]], float
    ),
    # 0 = centre, ring order 1-2-3-4
    "SquarePlanar": np.array(
        [[0, 0, 0], [1, 0, 0], [0, 1, 0], [-1, 0, 0], [0, -1, 0]], float
    ),
    # 0 centre; 1,2 axial; 3,4,5 equatorial
    "TrigonalBipyramidal": np.array(
        [[0, 0, 0], [0, 0, 1], [0, 0, -1], [1, 0, 0], [-0.5, _c30, 0], [-0.5, -_c30, 0]],
        float,
    ),
    # 0 centre; 1,2 trans; ring 3-4-5-6 (3 trans 5, 4 trans 6)
    "Octahedral": np.array(
        [[0, 0, 0], [0, 0, 1], [0, 0, -1], [1, 0, 0], [0, 1, 0], [-1, 0, 0], [0, -1, 0]],
        float,
    ),
    # 0,1 on atom 2; 4,5 on atom 3; 0 cis 4; coplanar
    "PlanarBond": np.array(
        [[-1.2, 1, 0], [-1.2, -1, 0], [-0.6, 0, 0], [0.6, 0, 0], [1.2, 1, 0], [1.2, -1, 0]],
        float,
    ),
    # same topology, end planes perpendicular
    "AtropBond": np.array(
        [[-1.2, 1, 0], [-1.2, -1, 0], [-0.6, 0, 0], [0.6, 0, 0], [1.2, 0, 1], [1.2, 0, -1]],
        float,
    ),
}
CLASSES = tuple(FIGURES)
NPOS = {k: len(v) for k, v in FIGURES.items()}
CHIRAL = {
    "Tetrahedral": True,
    "SquarePlanar": False,
    "TrigonalBipyramidal": True,
    "Octahedral": True,
    "PlanarBond": False,
    "AtropBond": True,
}
ATOM_CENTRED = ("Tetrahedral", "SquarePlanar", "TrigonalBipyramidal", "Octahedral")
BOND_CENTRED = ("PlanarBond", "AtropBond")
PARITY_DOMAIN = {k: ((1, -1) if v else (0,)) for k, v in CHIRAL.items()}
EXPECTED_ORDER = {
    "Tetrahedral": 12,
    "SquarePlanar": 8,
    "TrigonalBipyramidal": 6,
    "Octahedral": 24,
    "PlanarBond": 4,
    "AtropBond": 4,
}


def _kabsch(P: np.ndarray, Q: np.ndarray) -> tuple[bool, bool]:
    """Can an orthogonal map carry point list P onto Q (index-wise)?
    returns (proper possible, improper possible)."""
    Pc = P - P.mean(axis=0)
    Qc = Q - Q.mean(axis=0)
    if not np.allclose(P.mean(axis=0) - Q.mean(axis=0), 0, atol=1e-9):
        # figures are used about their own centroid; different centroid is fine
        pass
    H = Pc.T @ Qc
    U, S, Vt = np.linalg.svd(H)
    res = []
    rank = int((S > 1e-9).sum())
    for want in (+1, -1):
        d = np.sign(np.linalg.det(Vt.T @ U.T))
        D = np.eye(3)
        if rank == 3:
            if d != want:
                D[2, 2] = -1  # flip the weakest axis
        else:
            # planar (rank 2) point set: the free axis can realise either sign
            D[2, 2] = want * (d if d != 0 else 1)
        R = Vt.T @ D @ U.T
        ok = np.allclose((R @ Pc.T).T, Qc, atol=1e-7) and np.isclose(np.linalg.det(R), want)
        res.append(bool(ok))
    return res[0], res[1]


def _groups(cls: str):
    X = FIGURES[cls]
    n = len(X)
    proper, improper = [], []
    # fixed points of every symmetry: centre (atom classes) ; bond atoms may swap
    for perm in itertools.permutations(range(n)):
        if cls in ATOM_CENTRED and perm[0] != 0:
            continue
        if cls in BOND_CENTRED and set(perm[2:4]) != {2, 3}:
            continue
        p, i = _kabsch(X[list(perm)], X)
        if p:
            proper.append(perm)
        if i:
            improper.append(perm)
    return frozenset(proper), frozenset(improper)


PROPER: dict[str, frozenset] = {}
IMPROPER: dict[str, frozenset] = {}
for _cls in CLASSES:
    PROPER[_cls], IMPROPER[_cls] = _groups(_cls)


def compose(p, q):
    """(p∘q)[k] = q[p[k]]  -- apply(apply(t, q), p) == apply(t, compose(p, q))"""
    return tuple(q[i] for i in p)


def apply(atoms, perm):
    return tuple(atoms[i] for i in perm)


def self_test() -> None:
    for cls in CLASSES:
        P, I = PROPER[cls], IMPROPER[cls]
        n = NPOS[cls]
        ident = tuple(range(n))
        assert len(P) == EXPECTED_ORDER[cls], (cls, len(P))
        assert len(I) == len(P), (cls, len(I))
        assert ident in P
        for a in P:
            for b in P:
                assert compose(a, b) in P
            for b in I:
                assert compose(a, b) in I and compose(b, a) in I
        for a in I:
            for b in I:
                assert compose(a, b) in P
        if CHIRAL[cls]:
            assert not (P & I), cls
        else:
            assert P == I, cls
        # apply/compose coherence
        t = tuple("abcdefg"[:n])
        for a in list(P)[:3]:
            for b in list(P)[:3]:
                assert apply(apply(t, b), a) == apply(t, compose(a, b))


# ---------------------------------------------------------------------------
# descriptor relations
# ---------------------------------------------------------------------------
Desc = tuple  # (cls, atoms, parity)


def desc_equiv(d1: Desc, d2: Desc) -> bool:
    c1, a1, p1 = d1
    c2, a2, p2 = d2
    if c1 != c2 or len(a1) != len(a2):
        return False
    if p1 is None or p2 is None:
        return _multiset(a1) == _multiset(a2)
    a2 = tuple(a2)
    a1 = tuple(a1)
    if p1 == p2:
        for g in PROPER[c1]:
            if apply(a1, g) == a2:
                return True
    if p1 == -p2:
        for g in IMPROPER[c1]:
            if apply(a1, g) == a2:
                return True
    return False


def desc_same(d1: Desc, d2: Desc) -> bool:
    """Stricter than desc_equiv: same parity value (incl. None) and equivalent ordering
    with that parity; used where a conversion must keep the written parity."""
    return d1[2] == d2[2] and desc_equiv(d1, d2)


def _multiset(atoms):
    out: dict = {}
    for a in atoms:
        out[a] = out.get(a, 0) + 1
    return out


def desc_invert(d: Desc) -> Desc:
    c, a, p = d
    if p is None or p == 0:
        return d
    return (c, a, -p)


def desc_relabel(d: Desc, m) -> Desc:
    c, a, p = d
    return (c, tuple(None if x is None else m.get(x, x) for x in a), p)


def desc_centre(d: Desc):
    c, a, _ = d
    if c in ATOM_CENTRED:
        return a[0]
    return frozenset(a[2:4])


def desc_atoms(d: Desc):
    return [x for x in d[1] if x is not None]


def rewrite_desc(d: Desc, rng) -> Desc:
    """another (ordering, parity) for the same arrangement"""
    c, a, p = d
    if p is None:
        g = rng.choice(sorted(PROPER[c] | IMPROPER[c]))
        return (c, apply(a, g), None)
    if CHIRAL[c] and rng.random() < 0.5:
        g = rng.choice(sorted(IMPROPER[c]))
        return (c, apply(a, g), -p)
    g = rng.choice(sorted(PROPER[c]))
    return (c, apply(a, g), p)


# ---------------------------------------------------------------------------
# plain graph data ("PG"): the reference model of a labelled stereo/reaction graph
# ---------------------------------------------------------------------------
def pg_empty(cls="MolGraph"):
    return {
        "cls": cls,
        "atoms": {},  # id -> {attr: value}  ('atom_type' -> int Z)
        "bonds": {},  # frozenset -> {attr: value} ('reaction' -> 'FORMED'|'BROKEN'|'FLEETING')
        "astereo": {},  # atom -> desc
        "bstereo": {},  # bond -> desc
        "achange": {},  # atom -> {slot: desc}
        "bchange": {},  # bond -> {slot: desc}
    }


def pg_copy(g):
    return {
        "cls": g["cls"],
        "atoms": {a: dict(v) for a, v in g["atoms"].items()},
        "bonds": {b: dict(v) for b, v in g["bonds"].items()},
        "astereo": dict(g["astereo"]),
        "bstereo": dict(g["bstereo"]),
        "achange": {a: dict(v) for a, v in g["achange"].items()},
        "bchange": {b: dict(v) for b, v in g["bchange"].items()},
    }


def pg_role(g, b):
    return g["bonds"][b].get("reaction")


def pg_neighbors(g):
    n = {a: set() for a in g["atoms"]}
    for b in g["bonds"]:
        x, y = tuple(b)
        n[x].add(y)
        n[y].add(x)
    return n


def pg_relabel(g, m):
    f = lambda a: m.get(a, a)
    fb = lambda b: frozenset(f(a) for a in b)
    return {
        "cls": g["cls"],
        "atoms": {f(a): dict(v) for a, v in g["atoms"].items()},
        "bonds": {fb(b): dict(v) for b, v in g["bonds"].items()},
        "astereo": {f(a): desc_relabel(d, m) for a, d in g["astereo"].items()},
        "bstereo": {fb(b): desc_relabel(d, m) for b, d in g["bstereo"].items()},
        "achange": {
            f(a): {s: desc_relabel(d, m) for s, d in v.items()} for a, v in g["achange"].items()
        },
        "bchange": {
            fb(b): {s: desc_relabel(d, m) for s, d in v.items()} for b, v in g["bchange"].items()
        },
    }


def pg_mirror(g):
    h = pg_copy(g)
    h["astereo"] = {a: desc_invert(d) for a, d in g["astereo"].items()}
    h["bstereo"] = {b: desc_invert(d) for b, d in g["bstereo"].items()}
    h["achange"] = {a: {s: desc_invert(d) for s, d in v.items()} for a, v in g["achange"].items()}
    h["bchange"] = {b: {s: desc_invert(d) for s, d in v.items()} for b, v in g["bchange"].items()}
    return h


def pg_subgraph(g, S):
    S = set(S)
    inside = lambda d: all(x in S for x in desc_atoms(d))
    h = pg_empty(g["cls"])
    h["atoms"] = {a: dict(v) for a, v in g["atoms"].items() if a in S}
    h["bonds"] = {b: dict(v) for b, v in g["bonds"].items() if b <= S}
    h["astereo"] = {a: d for a, d in g["astereo"].items() if a in S and inside(d)}
    h["bstereo"] = {b: d for b, d in g["bstereo"].items() if b <= S and inside(d)}
    h["achange"] = {}
    for a, v in g["achange"].items():
        if a in S:
            vv = {s: d for s, d in v.items() if inside(d)}
            if vv:
                h["achange"][a] = vv
    h["bchange"] = {}
    for b, v in g["bchange"].items():
        if b <= S:
            vv = {s: d for s, d in v.items() if inside(d)}
            if vv:
                h["bchange"][b] = vv
    return h


def pg_components(g):
    parent = {a: a for a in g["atoms"]}

    def find(x):
        while parent[x] != x:
            parent[x] = parent[parent[x]]
            x = parent[x]
        return x

    for b in g["bonds"]:
        x, y = tuple(b)
        parent[find(x)] = find(y)
    comp: dict = {}
    for a in g["atoms"]:
        comp.setdefault(find(a), set()).add(a)
    return sorted((frozenset(c) for c in comp.values()), key=lambda c: sorted(c))


def pg_union(gs, cls):
    h = pg_empty(cls)
    for g in gs:
        for a, v in g["atoms"].items():
            h["atoms"][a] = dict(v)
        for b, v in g["bonds"].items():
            h["bonds"][b] = dict(v)
        h["astereo"].update(g["astereo"])
        h["bstereo"].update(g["bstereo"])
        for a, v in g["achange"].items():
            h["achange"][a] = dict(v)
        for b, v in g["bchange"].items():
            h["bchange"][b] = dict(v)
    return h


def pg_reactant(g, which="reactant"):
    """reference decomposition of a reaction graph into reactant / product / ts"""
    keep = {"reactant": (None, "BROKEN"), "product": (None, "FORMED"), "ts": (None, "BROKEN", "FORMED", "FLEETING")}[which]
    slot = {"reactant": "BROKEN", "product": "FORMED", "ts": "FLEETING"}[which]
    h = pg_empty("StereoMolGraph" if g["cls"].startswith("Stereo") else "MolGraph")
    h["atoms"] = {a: dict(v) for a, v in g["atoms"].items()}
    for b, v in g["bonds"].items():
        if v.get("reaction") in keep:
            vv = dict(v)
            vv.pop("reaction", None)
            h["bonds"][b] = vv
    h["astereo"] = dict(g["astereo"])
    h["bstereo"] = dict(g["bstereo"])
    for a, v in g["achange"].items():
        if slot in v:
            h["astereo"][a] = v[slot]
    for b, v in g["bchange"].items():
        if slot in v:
            h["bstereo"][b] = v[slot]
    return h


def _desc_valid(d, nbr, bonds):
    c = desc_centre(d)
    if d[0] in ATOM_CENTRED:
        return c in nbr and all(x in nbr[c] for x in d[1][1:] if x is not None)
    a = d[1]
    if c not in bonds:
        return False
    return all(x is None or x in nbr[a[2]] for x in a[0:2]) and all(x is None or x in nbr[a[3]] for x in a[4:6])


def pg_stereo_valid(g) -> bool:
    """every descriptor only names ligands that are bonded to its centre in every structure
    (reactant / product / TS for reaction graphs) in which the descriptor is present"""
    reaction = any("reaction" in v for v in g["bonds"].values()) or g["achange"] or g["bchange"]
    structs = {w: pg_reactant(g, w) for w in ("reactant", "product", "ts")} if reaction else {"ts": g}
    for w, h in structs.items():
        nbr = pg_neighbors(h)
        for d in list(h["astereo"].values()) + list(h["bstereo"].values()):
            if not _desc_valid(d, nbr, h["bonds"]):
                return False
    return True


_SWAP = {"FORMED": "BROKEN", "BROKEN": "FORMED", "FLEETING": "FLEETING"}


def pg_reverse(g):
    h = pg_copy(g)
    for b, v in h["bonds"].items():
        if "reaction" in v:
            v["reaction"] = _SWAP[v["reaction"]]
    h["achange"] = {a: {_SWAP[s]: d for s, d in v.items()} for a, v in g["achange"].items()}
    h["bchange"] = {b: {_SWAP[s]: d for s, d in v.items()} for b, v in g["bchange"].items()}
    return h


# ---------------------------------------------------------------------------
# comparison of plain graphs (labelled)
# ---------------------------------------------------------------------------
def _cmp_descs(d1: dict, d2: dict, mode: str, where: str, out: list):
    if set(d1) != set(d2):
        out.append(f"{where}: keys differ: only-left={_fmt(set(d1) - set(d2))} only-right={_fmt(set(d2) - set(d1))}")
        return
    for k in d1:
        a, b = d1[k], d2[k]
        ok = (a == b) if mode == "exact" else desc_same(a, b) if mode == "same" else desc_equiv(a, b)
        if not ok:
            out.append(f"{where}[{_fmt(k)}]: {a} vs {b}")


def _fmt(x):
    if isinstance(x, (set, frozenset)):
        try:
            return "{" + ",".join(map(_fmt, sorted(x, key=repr))) + "}"
        except Exception:
            return repr(x)
    return repr(x)


def pg_diff(g1, g2, mode="same", attrs=True, elements_only=False) -> list[str]:
    """labelled comparison. mode: 'exact' tuples identical, 'same' = equivalent ordering
    with identical parity value, 'equiv' = same arrangement (parity may be re-expressed)."""
    out: list[str] = []
    if set(g1["atoms"]) != set(g2["atoms"]):
        out.append(f"atoms differ: only-left={_fmt(set(g1['atoms']) - set(g2['atoms']))} only-right={_fmt(set(g2['atoms']) - set(g1['atoms']))}")
    else:
        for a in g1["atoms"]:
            x, y = g1["atoms"][a], g2["atoms"][a]
            if x.get("atom_type") != y.get("atom_type"):
                out.append(f"element of {a}: {x.get('atom_type')} vs {y.get('atom_type')}")
            elif attrs and x != y:
                out.append(f"attributes of atom {a}: {x} vs {y}")
    if set(g1["bonds"]) != set(g2["bonds"]):
        out.append(f"bonds differ: only-left={_fmt(set(g1['bonds']) - set(g2['bonds']))} only-right={_fmt(set(g2['bonds']) - set(g1['bonds']))}")
    else:
        for b in g1["bonds"]:
            x, y = g1["bonds"][b], g2["bonds"][b]
            if x.get("reaction") != y.get("reaction"):
                out.append(f"role of bond {_fmt(b)}: {x.get('reaction')} vs {y.get('reaction')}")
            elif attrs and x != y:
                out.append(f"attributes of bond {_fmt(b)}: {x} vs {y}")
    _cmp_descs(g1["astereo"], g2["astereo"], mode, "atom_stereo", out)
    _cmp_descs(g1["bstereo"], g2["bstereo"], mode, "bond_stereo", out)
    for key in ("achange", "bchange"):
        c1 = {(k, s): d for k, v in g1[key].items() for s, d in v.items()}
        c2 = {(k, s): d for k, v in g2[key].items() for s, d in v.items()}
        _cmp_descs(c1, c2, mode, key, out)
    return out


# ---------------------------------------------------------------------------
# reference isomorphism enumerator on plain graphs
# ---------------------------------------------------------------------------
def _z(g, a):
    return g["atoms"][a].get("atom_type")


def _stereo_ok(g1, g2, f, stereo=True, changes=True) -> bool:
    fb = lambda b: frozenset(f[a] for a in b)
    if stereo:
        if len(g1["astereo"]) != len(g2["astereo"]) or len(g1["bstereo"]) != len(g2["bstereo"]):
            return False
        for a, d in g1["astereo"].items():
            e = g2["astereo"].get(f[a])
            if e is None or not desc_equiv(desc_relabel(d, f), e):
                return False
        for b, d in g1["bstereo"].items():
            e = g2["bstereo"].get(fb(b))
            if e is None or not desc_equiv(desc_relabel(d, f), e):
                return False
    if changes:
        c1 = {(f[k], s): d for k, v in g1["achange"].items() for s, d in v.items()}
        c2 = {(k, s): d for k, v in g2["achange"].items() for s, d in v.items()}
        if set(c1) != set(c2):
            return False
        for k, d in c1.items():
            if not desc_equiv(desc_relabel(d, f), c2[k]):
                return False
        c1 = {(fb(k), s): d for k, v in g1["bchange"].items() for s, d in v.items()}
        c2 = {(k, s): d for k, v in g2["bchange"].items() for s, d in v.items()}
        if set(c1) != set(c2):
            return False
        for k, d in c1.items():
            if not desc_equiv(desc_relabel(d, f), c2[k]):
                return False
    return True


def _structure_ok(g1, g2, f) -> bool:
    if len(g1["bonds"]) != len(g2["bonds"]):
        return False
    for a in g1["atoms"]:
        if _z(g1, a) != _z(g2, f[a]):
            return False
    for b, v in g1["bonds"].items():
        w = g2["bonds"].get(frozenset(f[a] for a in b))
        if w is None or v.get("reaction") != w.get("reaction"):
            return False
    return True


def valid_mapping(g1, g2, f, stereo=True, changes=True) -> bool:
    if set(f) != set(g1["atoms"]) or set(f.values()) != set(g2["atoms"]) or len(set(f.values())) != len(f):
        return False
    return _structure_ok(g1, g2, f) and _stereo_ok(g1, g2, f, stereo, changes)


def brute_isos(g1, g2, stereo=True, changes=True, limit=None):
    A1, A2 = sorted(g1["atoms"]), sorted(g2["atoms"])
    out = []
    if len(A1) != len(A2):
        return out
    for perm in itertools.permutations(A2):
        f = dict(zip(A1, perm))
        if _structure_ok(g1, g2, f) and _stereo_ok(g1, g2, f, stereo, changes):
            out.append(f)
            if limit and len(out) >= limit:
                break
    return out


def iter_isos(g1, g2, stereo=True, changes=True, budget=None):
    """adjacency-pruned backtracking; yields every structure/role/(stereo)-preserving
    bijection exactly once.  Independent of the repository's VF2++."""
    import sys

    # the search recurses once per atom: lift the interpreter's recursion limit for the reference only (consumers
    # exhaust this generator before they call the library again, so the library still runs under the default limit)
    old_limit = sys.getrecursionlimit()
    need = 4 * len(g1["atoms"]) + 500
    if need > old_limit:
        sys.setrecursionlimit(need)
    try:
        yield from _iter_isos(g1, g2, stereo, changes, budget)
    finally:
        if need > old_limit:
            sys.setrecursionlimit(old_limit)


def _iter_isos(g1, g2, stereo=True, changes=True, budget=None):
    A1 = list(g1["atoms"])
    if len(A1) != len(g2["atoms"]) or len(g1["bonds"]) != len(g2["bonds"]):
        return
    n1, n2 = pg_neighbors(g1), pg_neighbors(g2)
    sig1 = sorted((_z(g1, a), len(n1[a])) for a in A1)
    sig2 = sorted((_z(g2, a), len(n2[a])) for a in g2["atoms"])
    if sig1 != sig2:
        return
    if not A1:
        if _stereo_ok(g1, g2, {}, stereo, changes):
            yield {}
        return
    # order: BFS per component starting at rarest signature
    order, seen = [], set()
    rest = sorted(A1, key=lambda a: (-len(n1[a]), repr(a)))
    for s in rest:
        if s in seen:
            continue
        queue = [s]
        seen.add(s)
        while queue:
            x = queue.pop(0)
            order.append(x)
            for y in sorted(n1[x], key=lambda a: (-len(n1[a]), repr(a))):
                if y not in seen:
                    seen.add(y)
                    queue.append(y)
    cand_by_sig: dict = {}
    for a in g2["atoms"]:
        cand_by_sig.setdefault((_z(g2, a), len(n2[a])), []).append(a)
    # descriptors that become checkable at a given depth
    pos = {a: i for i, a in enumerate(order)}
    f: dict = {}
    used: set = set()
    steps = [0]

    def early_ok(a):
        # check atom-centred descriptors whose atoms are all mapped, keyed by centre only
        if not stereo:
            return True
        for c, d in g1["astereo"].items():
            if a == c or a in d[1]:
                if all(x in f for x in desc_atoms(d)):
                    e = g2["astereo"].get(f[c])
                    if e is None or not desc_equiv(desc_relabel(d, f), e):
                        return False
        return True

    def rec(i):
        if budget is not None:
            steps[0] += 1
            if steps[0] > budget:
                raise TimeoutError("reference search budget exhausted")
        if i == len(order):
            if _stereo_ok(g1, g2, f, stereo, changes):
                yield dict(f)
            return
        a = order[i]
        za, da = _z(g1, a), len(n1[a])
        mapped_nb = [x for x in n1[a] if x in f]
        if mapped_nb:
            cands = set(n2[f[mapped_nb[0]]])
            for x in mapped_nb[1:]:
                cands &= n2[f[x]]
        else:
            cands = cand_by_sig.get((za, da), [])
        for c in sorted(cands, key=repr):
            if c in used or _z(g2, c) != za or len(n2[c]) != da:
                continue
            # adjacency + role consistency with everything mapped
            ok = True
            cnt = 0
            for x in mapped_nb:
                b1 = g1["bonds"][frozenset((a, x))]
                b2 = g2["bonds"].get(frozenset((c, f[x])))
                if b2 is None or b1.get("reaction") != b2.get("reaction"):
                    ok = False
                    break
                cnt += 1
            if not ok:
                continue
            # c must not have extra mapped neighbours
            if sum(1 for y in n2[c] if y in used) != cnt:
                continue
            f[a] = c
            used.add(c)
            if early_ok(a):
                yield from rec(i + 1)
            del f[a]
            used.discard(c)

    yield from rec(0)


def isomorphic(g1, g2, stereo=True, changes=True, budget=2_000_000) -> bool:
    for _ in iter_isos(g1, g2, stereo, changes, budget):
        return True
    return False


def canon_key(g) -> tuple:
    """cheap isomorphism-invariant fingerprint used for counting distinct cases"""
    n = pg_neighbors(g)
    return (
        g["cls"],
        len(g["atoms"]),
        tuple(sorted((_z(g, a) or 0, len(n[a])) for a in g["atoms"])),
        tuple(sorted(str(v.get("reaction")) for v in g["bonds"].values())),
        tuple(sorted((d[0], d[2] if d[2] is not None else 9, sum(x is None for x in d[1])) for d in list(g["astereo"].values()) + list(g["bstereo"].values()))),
        tuple(sorted((s, d[0]) for v in list(g["achange"].values()) + list(g["bchange"].values()) for s, d in v.items())),
    )
