"""smgmon: runtime monitors for the StereoMolGraph properties C01-C20 (see DESIGN.md)."""
