import sys

from .runner import main

sys.exit(main())
