"""Executable reference model of the four graph classes (DESIGN.md Appendix A/B).

Ops are JSON-able lists: [name, *args].  Descriptors are [class, atoms, parity]."""
from __future__ import annotations

import itertools

from . import sem
from .snapshot import REACTION, STEREO, fresh, mk_desc, snap

_SYM = (
    "H He Li Be B C N O F Ne Na Mg Al Si P S Cl Ar K Ca Sc Ti V Cr Mn Fe Co Ni Cu Zn Ga Ge As Se Br Kr Rb Sr Y Zr Nb Mo "
    "Tc Ru Rh Pd Ag Cd In Sn Sb Te I Xe Cs Ba La Ce Pr Nd Pm Sm Eu Gd Tb Dy Ho Er Tm Yb Lu Hf Ta W Re Os Ir Pt Au Hg Tl "
    "Pb Bi Po At Rn Fr Ra Ac Th Pa U Np Pu Am Cm Bk Cf Es Fm Md No Lr Rf Db Sg Bh Hs Mt Ds Rg Cn Nh Fl Mc Lv Ts Og"
).split()
ELEMENTS: dict = {}
for _i, _s in enumerate(_SYM, 1):
    ELEMENTS[_i] = _i
    for _k in (_s, _s.upper(), _s.lower()):
        ELEMENTS[_k] = _i
assert len(_SYM) == 118
ROLES = ("FORMED", "BROKEN", "FLEETING")
MUTATORS = (
    "add_atom", "remove_atom", "add_bond", "add_formed_bond", "add_broken_bond", "add_fleeting_bond", "remove_bond",
    "set_atom_attribute", "delete_atom_attribute", "set_bond_attribute", "delete_bond_attribute",
    "set_atom_stereo", "set_bond_stereo", "delete_atom_stereo", "delete_bond_stereo",
    "set_atom_stereo_change", "set_bond_stereo_change", "delete_atom_stereo_change", "delete_bond_stereo_change",
    "relabel_atoms",
)


def is_element(z):
    try:
        return z in ELEMENTS and not isinstance(z, bool)
    except TypeError:
        return False


def _d(x):
    return (x[0], tuple(x[1]), x[2])


def _role_value(v):
    """JSON ops carry roles as {'$change': 'FORMED'}; anything else is a wrong-typed label"""
    if isinstance(v, dict) and "$change" in v:
        return v["$change"]
    return None


def to_real_value(v):
    if isinstance(v, dict) and "$change" in v:
        from stereomolgraph.graphs.crg import Change

        return Change[v["$change"]]
    if isinstance(v, dict) and "$np" in v:  # a numpy scalar, e.g. {"$np": ["float64", 6.7]}
        import numpy as np

        return getattr(np, v["$np"][0])(v["$np"][1])
    return v


def classify(M, cls, op):
    """'ok' | 'must-raise' | 'open' for op on model state M of class cls (Appendix A)"""
    name, *a = op
    A, B = M["atoms"], M["bonds"]
    reaction, stereo = cls in REACTION, cls in STEREO
    if name == "add_atom":
        return "ok" if is_element(a[1]) else "must-raise"
    if name == "remove_atom":
        return "ok" if a[0] in A else "must-raise"
    if name in ("add_bond", "add_formed_bond", "add_broken_bond", "add_fleeting_bond"):
        x, y, attrs = a[0], a[1], (a[2] if len(a) > 2 else {})
        if x not in A or y not in A or x == y:
            return "must-raise"
        if reaction and name == "add_bond" and "reaction" in attrs and _role_value(attrs["reaction"]) is None:
            return "must-raise"
        return "ok"
    if name == "remove_bond":
        return "ok" if frozenset(a[:2]) in B and a[0] != a[1] else "must-raise"
    if name == "bonds_from_bond_order_matrix":
        mat, thr = a[0], a[1]
        n = len(A)
        if set(A) != set(range(n)) or len(mat) != n or any(len(r) != n for r in mat):
            return "skip"  # the method addresses atoms as 0..n-1; anything else is not generated
        return "must-raise" if any(mat[i][i] > thr for i in range(n)) else "ok"
    if name == "set_atom_attribute":
        x, k, v = a
        if x not in A:
            return "must-raise"
        if k == "atom_type" and not is_element(v):
            return "must-raise"
        return "ok"
    if name == "delete_atom_attribute":
        x, k = a
        if k == "atom_type" or x not in A:
            return "must-raise"
        return "ok" if k in A[x] else "open"
    if name == "set_bond_attribute":
        x, y, k, v = a
        if frozenset((x, y)) not in B or x == y:
            return "must-raise"
        if reaction and k == "reaction" and _role_value(v) is None:
            return "must-raise"
        return "ok"
    if name == "delete_bond_attribute":
        x, y, k = a
        if frozenset((x, y)) not in B or x == y:
            return "must-raise"
        return "ok" if k in B[frozenset((x, y))] else "open"
    if name == "set_atom_stereo":
        return "ok" if _d(a[0])[1][0] in A else "must-raise"
    if name == "set_bond_stereo":
        d = _d(a[0])
        return "ok" if frozenset(d[1][2:4]) in B and d[1][2] != d[1][3] else "must-raise"
    if name == "delete_atom_stereo":
        if a[0] not in A:
            return "must-raise"
        return "ok" if a[0] in M["astereo"] else "open"
    if name == "delete_bond_stereo":
        b = frozenset(a[0])
        if b not in B:
            # a descriptor may legitimately outlive its bond (remove_bond keeps it): deleting it is fine
            return "ok" if b in M["bstereo"] else "must-raise"
        return "ok" if b in M["bstereo"] else "open"
    if name in ("set_atom_stereo_change", "set_bond_stereo_change"):
        slots = a[0]
        if not slots:
            return "open"
        cents = {sem.desc_centre(_d(d)) for d in slots.values()}
        if len(cents) != 1:
            return "must-raise"
        c = next(iter(cents))
        if name == "set_atom_stereo_change":
            return "ok" if c in A else "must-raise"
        return "ok" if c in B and len(c) == 2 else "must-raise"
    if name == "delete_atom_stereo_change":
        x, slot = a
        if x not in A:
            return "must-raise"
        e = M["achange"].get(x)
        return "ok" if e and (slot is None or slot in e) else "open"
    if name == "delete_bond_stereo_change":
        b, slot = frozenset(a[0]), a[1]
        e = M["bchange"].get(b)
        if b not in B:
            return "ok" if e and (slot is None or slot in e) else "must-raise"
        return "ok" if e and (slot is None or slot in e) else "open"
    if name == "relabel_atoms":
        m = {k: v for k, v in a[0]}
        img = [m.get(x, x) for x in A]
        # a mapping that sends two atoms to one id is not a renaming: such requests are never issued ("skip")
        return "ok" if len(set(img)) == len(img) else "skip"
    raise ValueError(name)


def mentions(d, atom):
    return atom in d[1]


def apply_model(M, cls, op):
    """apply a well-formed ('ok') op to the model in place; returns a dict of 'free' keys for
    remove_atom (change entries whose fate the statements leave open)"""
    name, *a = op
    A, B = M["atoms"], M["bonds"]
    reaction = cls in REACTION
    free = {}
    if name == "add_atom":
        A[a[0]] = {"atom_type": ELEMENTS[a[1]], **(a[2] if len(a) > 2 else {})}
    elif name == "remove_atom":
        x = a[0]
        del A[x]
        for b in [b for b in B if x in b]:
            del B[b]
        for k in [k for k, d in M["astereo"].items() if k == x or mentions(d, x)]:
            del M["astereo"][k]
        for k in [k for k, d in M["bstereo"].items() if x in k or mentions(d, x)]:
            del M["bstereo"][k]
        for key in ("achange", "bchange"):
            for k in list(M[key]):
                entry = M[key][k]
                keyed = (k == x) if key == "achange" else (x in k)
                hit = [s for s, d in entry.items() if mentions(d, x)]
                if keyed or len(hit) == len(entry):
                    del M[key][k]
                elif hit:
                    for s in hit:
                        del entry[s]
                    free[(key, k)] = set(entry)  # the remaining slots may stay or go
    elif name in ("add_bond", "add_formed_bond", "add_broken_bond", "add_fleeting_bond"):
        x, y, attrs = a[0], a[1], dict(a[2] if len(a) > 2 else {})
        if "reaction" in attrs and _role_value(attrs["reaction"]) is not None:
            attrs["reaction"] = _role_value(attrs["reaction"])
        if name != "add_bond":
            attrs["reaction"] = {"add_formed_bond": "FORMED", "add_broken_bond": "BROKEN", "add_fleeting_bond": "FLEETING"}[name]
        B[frozenset((x, y))] = attrs
    elif name == "remove_bond":
        del B[frozenset(a[:2])]
    elif name == "bonds_from_bond_order_matrix":
        # a pair is bonded when either entry exceeds the threshold (add_bond per entry, row by row)
        mat, thr, inc = a
        for i in range(len(mat)):
            for j in range(len(mat)):
                if mat[i][j] > thr:
                    attrs = {"bond_order": mat[i][j]} if inc else {}
                    B[frozenset((i, j))] = attrs
    elif name == "set_atom_attribute":
        x, k, v = a
        A[x][k] = ELEMENTS[v] if k == "atom_type" else v
    elif name == "delete_atom_attribute":
        del A[a[0]][a[1]]
    elif name == "set_bond_attribute":
        x, y, k, v = a
        B[frozenset((x, y))][k] = _role_value(v) if _role_value(v) is not None else v
    elif name == "delete_bond_attribute":
        del B[frozenset(a[:2])][a[2]]
    elif name == "set_atom_stereo":
        d = _d(a[0])
        M["astereo"][d[1][0]] = d
    elif name == "set_bond_stereo":
        d = _d(a[0])
        M["bstereo"][frozenset(d[1][2:4])] = d
    elif name == "delete_atom_stereo":
        del M["astereo"][a[0]]
    elif name == "delete_bond_stereo":
        del M["bstereo"][frozenset(a[0])]
    elif name in ("set_atom_stereo_change", "set_bond_stereo_change"):
        slots = {s.upper(): _d(d) for s, d in a[0].items()}
        c = sem.desc_centre(next(iter(slots.values())))
        M["achange" if name == "set_atom_stereo_change" else "bchange"][c] = slots
    elif name == "delete_atom_stereo_change":
        x, slot = a
        if slot is None:
            del M["achange"][x]
        else:
            del M["achange"][x][slot]
    elif name == "delete_bond_stereo_change":
        b, slot = frozenset(a[0]), a[1]
        if slot is None:
            del M["bchange"][b]
        else:
            del M["bchange"][b][slot]
    elif name == "relabel_atoms":
        m = {k: v for k, v in a[0]}
        N = sem.pg_relabel(M, m)
        for k in ("atoms", "bonds", "astereo", "bstereo", "achange", "bchange"):
            M[k] = N[k]
    else:
        raise ValueError(name)
    return free


_BOND_ARG_KINDS = (tuple, list, frozenset, iter, lambda b: (x for x in b), lambda b: map(int, [str(x) for x in b]))
def _bond_arg(b, salt):
    """a bond given as Iterable[AtomId]: tuple, list, frozenset or a one-shot iterable, chosen from the request itself
    (replayable)"""
    import zlib

    return _BOND_ARG_KINDS[zlib.crc32(repr(salt).encode()) % len(_BOND_ARG_KINDS)](list(b))


MAPPING_KINDS = ("dict", "dict", "defaultdict", "OrderedDict", "MappingProxyType", "UserDict", "ChainMap")


def mapping_arg(pairs, salt):
    """a relabelling table given as Mapping[AtomId, AtomId]: a plain dict or another mapping type chosen from the request
    itself (replayable). The defaultdict hands out fresh labels for missing keys when indexed (m[k]) - looking a key up
    must not do that. Returns (mapping, kind, check) where check() is False if the caller's table was changed."""
    import collections
    import itertools
    import types
    import zlib

    d = dict(pairs)
    kind = MAPPING_KINDS[zlib.crc32(repr(salt).encode()) % len(MAPPING_KINDS)]
    if kind == "defaultdict":
        c = itertools.count(10**7)
        m = collections.defaultdict(lambda: next(c), d)
    elif kind == "OrderedDict":
        m = collections.OrderedDict(reversed(list(d.items())))
    elif kind == "MappingProxyType":
        m = types.MappingProxyType(d)
    elif kind == "UserDict":
        m = collections.UserDict(d)
    elif kind == "ChainMap":
        items = list(d.items())
        m = collections.ChainMap(dict(items[: len(items) // 2]), dict(items[len(items) // 2:]))
    else:
        m = d
    return m, kind, (lambda: dict(m) == dict(pairs))


def apply_real(g, op):
    """execute op on the real object; returns ('ok', value) or ('raised', exception type name)"""
    name, *a = fresh(op)
    if name in ("delete_bond_stereo", "delete_bond_stereo_change") and isinstance(a[0], (list, tuple)) and len(a[0]) == 2:
        a[0] = _bond_arg(a[0], op)
    try:
        if name == "add_atom":
            r = g.add_atom(a[0], to_real_value(a[1]), **(a[2] if len(a) > 2 else {}))
        elif name in ("add_bond", "add_formed_bond", "add_broken_bond", "add_fleeting_bond"):
            attrs = {k: to_real_value(v) for k, v in (a[2] if len(a) > 2 else {}).items()}
            r = getattr(g, name)(a[0], a[1], **attrs)
        elif name in ("set_atom_stereo", "set_bond_stereo"):
            r = getattr(g, name)(mk_desc(_d(a[0])))
        elif name in ("set_atom_stereo_change", "set_bond_stereo_change"):
            r = getattr(g, name)(**{s.lower(): mk_desc(_d(d)) for s, d in a[0].items()})
        elif name in ("delete_atom_stereo_change", "delete_bond_stereo_change"):
            from stereomolgraph.graphs.crg import Change

            r = getattr(g, name)(a[0], None if a[1] is None else Change[a[1]])
        elif name == "relabel_atoms":
            m_, _, same_ = mapping_arg([(k, v) for k, v in a[0]], op)
            r = g.relabel_atoms(m_, copy=False)
            if not same_():
                return "raised", "caller-mapping-modified"
        elif name == "bonds_from_bond_order_matrix":
            import numpy as np

            r = g.bonds_from_bond_order_matrix(np.array(a[0]), threshold=a[1], include_bond_order=a[2])
        elif name in ("set_atom_attribute", "set_bond_attribute"):
            r = getattr(g, name)(*a[:-1], to_real_value(a[-1]))
        else:
            r = getattr(g, name)(*a)
        return "ok", r
    except Exception as e:  # noqa: BLE001
        return "raised", type(e).__name__


def compare(g, M):
    """real snapshot vs model, exact; empty change entries ignored"""
    S = snap(g)
    out = []
    if S["atoms"] != M["atoms"]:
        out.append(f"atoms/attributes: real {_short(S['atoms'])} model {_short(M['atoms'])}")
    if S["bonds"] != M["bonds"]:
        out.append(f"bonds/attributes: real {_short(S['bonds'])} model {_short(M['bonds'])}")
    for k in ("astereo", "bstereo"):
        if S[k] != M[k]:
            out.append(f"{k}: real {_short(S[k])} model {_short(M[k])}")
    for k in ("achange", "bchange"):
        r = {x: v for x, v in S[k].items() if v}
        m = {x: v for x, v in M[k].items() if v}
        if r != m:
            out.append(f"{k}: real {_short(r)} model {_short(m)}")
    return out


def _short(x, n=260):
    s = repr(x)
    return s if len(s) <= n else s[:n] + "..."


# ---------------------------------------------------------------------------
# coherence invariants at quiescent points (Appendix B) - public API only
# ---------------------------------------------------------------------------
def coherence(g, universe=()):
    import numpy as np

    out = []
    cls = type(g).__name__
    A = dict(g.atoms_with_attributes)
    atoms = list(g.atoms)
    if set(atoms) != set(A) or len(atoms) != len(A):
        out.append(("atoms-vs-attributes", f"atoms {atoms} vs attribute keys {list(A)}"))
    if len(g) != len(A) or g.n_atoms != len(A):
        out.append(("len", f"len {len(g)} n_atoms {g.n_atoms} |A| {len(A)}"))
    try:
        T = tuple(g.atom_types)
    except Exception as e:  # noqa: BLE001
        out.append(("atom_types-raises", repr(e)))
        T = ()
    for a, at in A.items():
        z = at.get("atom_type")
        if not (isinstance(z, int) and not isinstance(z, bool) and 1 <= z <= 118):
            out.append(("atom-without-element", f"atom {a} has atom_type {z!r}"))
    if T and list(T) != [A[a].get("atom_type") for a in atoms if a in A]:
        out.append(("atom_types-order", f"{T} vs {[A[a].get('atom_type') for a in atoms]}"))
    for a in list(atoms) + list(universe):
        if g.has_atom(a) != (a in A):
            out.append(("has_atom", f"has_atom({a}) = {g.has_atom(a)}"))
    B = dict(g.bonds_with_attributes)
    if set(g.bonds) != set(B):
        out.append(("bonds-vs-attributes", f"{list(g.bonds)} vs {list(B)}"))
    adj = {a: set() for a in A}
    for b in B:
        if not isinstance(b, frozenset) or len(b) != 2:
            out.append(("malformed-bond", f"bond key {b!r}"))
            continue
        if not all(x in A for x in b):
            out.append(("bond-to-absent-atom", f"bond {sorted(b)} but atoms {sorted(A)}"))
            continue
        x, y = tuple(b)
        adj[x].add(y)
        adj[y].add(x)
    U = sorted(set(A) | set(universe), key=repr)[:14]
    for x, y in itertools.combinations(U, 2):
        if g.has_bond(x, y) != (frozenset((x, y)) in B) or g.has_bond(y, x) != (frozenset((x, y)) in B):
            out.append(("has_bond", f"has_bond({x},{y}) = {g.has_bond(x, y)}"))
    N = {a: set(n) for a, n in g.neighbors.items()}
    for a in N:
        if a not in A:
            out.append(("phantom-neighbour-entry", f"neighbors has key {a} which is not an atom"))
    for a in A:
        if N.get(a, set()) != adj[a]:
            out.append(("neighbors-vs-bonds", f"neighbors[{a}] = {sorted(N.get(a, set()), key=repr)} but bonds give {sorted(adj[a], key=repr)}"))
        try:
            bt = g.bonded_to(a)
            if set(bt) != adj[a]:
                out.append(("bonded_to-vs-bonds", f"bonded_to({a}) = {sorted(bt, key=repr)} but bonds give {sorted(adj[a], key=repr)}"))
        except Exception as e:  # noqa: BLE001
            out.append(("bonded_to-raises", f"bonded_to({a}) raised {e!r}"))
    try:
        cm = np.asarray(g.connectivity_matrix())
        want = np.zeros((len(atoms), len(atoms)), dtype=int)
        idx = {a: i for i, a in enumerate(atoms)}
        for a in A:
            for b in adj[a]:
                if a in idx and b in idx:
                    want[idx[a], idx[b]] = 1
        if cm.shape != want.shape or (cm != want).any():
            out.append(("connectivity_matrix", "matrix differs from the adjacency of bonds in the order of atoms"))
    except Exception as e:  # noqa: BLE001
        out.append(("connectivity_matrix-raises", repr(e)))
    try:
        comps = [frozenset(c) for c in g.connected_components()]
        ref = sem.pg_components({"atoms": A, "bonds": {b: {} for b in B if len(b) == 2 and all(x in A for x in b)}})
        if sorted(comps, key=lambda c: sorted(c, key=repr)) != sorted(ref, key=lambda c: sorted(c, key=repr)):
            out.append(("connected_components", f"{[sorted(c, key=repr) for c in comps]} vs {[sorted(c, key=repr) for c in ref]}"))
    except Exception as e:  # noqa: BLE001
        out.append(("connected_components-raises", repr(e)))
    if cls in STEREO:
        AS, BS = dict(g.atom_stereo), dict(g.bond_stereo)
        for k, d in AS.items():
            if d.central_atom != k:
                out.append(("atom-stereo-key", f"atom_stereo[{k}] is centred on {d.central_atom}"))
            if k not in A:
                out.append(("left-over-atom-stereo", f"atom_stereo has key {k} which is not an atom"))
        for k, d in BS.items():
            if frozenset(d.bond) != frozenset(k):
                out.append(("bond-stereo-key", f"bond_stereo[{sorted(k)}] is centred on {sorted(d.bond)}"))
            if not all(x in A for x in k):
                out.append(("left-over-bond-stereo", f"bond_stereo has key {sorted(k, key=repr)} with an endpoint that is not an atom"))
        S = dict(g.stereo)
        if S != {**AS, **BS}:
            out.append(("stereo-union", "stereo != atom_stereo | bond_stereo"))
    if cls == "StereoCondensedReactionGraph":
        for k, cd in g.atom_stereo_changes.items():
            if k not in A and any(v is not None for v in cd.values()):
                out.append(("left-over-atom-stereo-change", f"atom_stereo_changes has key {k} which is not an atom"))
            elif k not in A:
                out.append(("phantom-atom-stereo-change-entry", f"atom_stereo_changes has an (empty) entry for {k} which is not an atom"))
            for s, d in cd.items():
                if d is not None and d.central_atom != k:
                    out.append(("atom-change-key", f"atom_stereo_changes[{k}][{s}] centred on {d.central_atom}"))
        for k, cd in g.bond_stereo_changes.items():
            if not all(x in A for x in k):
                out.append(("left-over-bond-stereo-change", f"bond_stereo_changes has key {sorted(k, key=repr)} with an endpoint that is not an atom"))
            for s, d in cd.items():
                if d is not None and frozenset(d.bond) != frozenset(k):
                    out.append(("bond-change-key", f"bond_stereo_changes[{sorted(k)}][{s}] centred on {sorted(d.bond)}"))
    if cls in REACTION:
        from stereomolgraph.graphs.crg import Change

        roles = {}
        for b, at in B.items():
            if "reaction" in at:
                if not isinstance(at["reaction"], Change):
                    out.append(("role-not-a-Change", f"bond {sorted(b)} has reaction={at['reaction']!r}"))
                else:
                    roles[b] = at["reaction"].name
        try:
            got = {"FORMED": set(g.get_formed_bonds()), "BROKEN": set(g.get_broken_bonds()), "FLEETING": set(g.get_fleeting_bonds())}
            for r in ROLES:
                if got[r] != {b for b, x in roles.items() if x == r}:
                    out.append(("role-getters", f"get_{r.lower()}_bonds = {sorted(map(sorted, got[r]))} but attributes say {sorted(sorted(b) for b, x in roles.items() if x == r)}"))
        except Exception as e:  # noqa: BLE001
            out.append(("role-getters-raise", repr(e)))
    return out


def queries(g, universe):
    """read-only query battery: list of (name, thunk); includes absent ids"""
    cls = type(g).__name__
    U = list(universe)
    q = [
        ("atoms", lambda: list(g.atoms)),
        ("atom_types", lambda: g.atom_types),
        ("bonds", lambda: list(g.bonds)),
        ("neighbors", lambda: dict(g.neighbors)),
        ("n_atoms", lambda: (g.n_atoms, len(g))),
        ("connectivity_matrix", lambda: g.connectivity_matrix()),
        ("connected_components", lambda: g.connected_components()),
        ("eq-self", lambda: g == g),
        ("hash", lambda: hash(g)),
        ("str", lambda: (str(g), repr(g))),
        ("copy", lambda: g.copy()),
        ("copy-construct", lambda: type(g)(g)),
    ]
    for a in U:
        q += [
            (f"has_atom", lambda a=a: g.has_atom(a)),
            (f"bonded_to", lambda a=a: g.bonded_to(a)),
            (f"get_atom_type", lambda a=a: g.get_atom_type(a)),
            (f"get_atom_attribute", lambda a=a: g.get_atom_attribute(a, "label")),
            (f"get_atom_attributes", lambda a=a: dict(g.get_atom_attributes(a))),
            (f"get_atom_attributes-sel", lambda a=a: g.get_atom_attributes(a, ["atom_type"])),
            (f"node_connected_component", lambda a=a: g.node_connected_component(a)),
        ]
        if cls in STEREO:
            q.append(("get_atom_stereo", lambda a=a: g.get_atom_stereo(a)))
        if cls == "StereoCondensedReactionGraph":
            q.append(("get_atom_stereo_change", lambda a=a: g.get_atom_stereo_change(a)))
    for a, b in itertools.combinations(U, 2):
        q += [
            ("has_bond", lambda a=a, b=b: g.has_bond(a, b)),
            ("get_bond_attribute", lambda a=a, b=b: g.get_bond_attribute(a, b, "bond_order")),
            ("get_bond_attributes", lambda a=a, b=b: dict(g.get_bond_attributes(a, b))),
            ("get_bond_attributes-sel", lambda a=a, b=b: g.get_bond_attributes(a, b, ["bond_order"])),
        ]
        if cls in STEREO:
            q.append(("get_bond_stereo", lambda a=a, b=b: g.get_bond_stereo((a, b))))
        if cls == "StereoCondensedReactionGraph":
            q.append(("get_bond_stereo_change", lambda a=a, b=b: g.get_bond_stereo_change((a, b))))
    if cls in STEREO:
        q += [("stereo", lambda: dict(g.stereo)), ("is_stereo_valid", lambda: g.is_stereo_valid()), ("enantiomer", lambda: g.enantiomer())]
    if cls in REACTION:
        q += [
            ("role-getters", lambda: (g.get_formed_bonds(), g.get_broken_bonds(), g.get_fleeting_bonds())),
            ("active_atoms", lambda: g.active_atoms()),
            ("active_atoms-layer", lambda: g.active_atoms(additional_layer=1)),
            ("reactant", lambda: g.reactant()),
            ("product", lambda: g.product()),
            ("reverse_reaction", lambda: g.reverse_reaction()),
        ]
        q.append(("_to_rdmol", lambda: g._to_rdmol()))
        q.append(("to_rdmol-bond-orders", lambda: g._to_rdmol(generate_bond_orders=True)))
    else:
        q.append(("_to_rdmol", lambda: g._to_rdmol()))

    def js():
        from stereomolgraph.experimental import JSONHandler

        return JSONHandler.json_serialize(g)

    q.append(("json_serialize", js))
    if U:
        q.append(("subgraph", lambda: g.subgraph([a for a in U if g.has_atom(a)][:2])))
    return q
